"""Bounded stand-ins: run-time checked contracts on the REAL functions over an exhaustively enumerated small scope.
Used only where a function could not be brought within reach of the deductive engines (name-collision resolution over
concrete naming functions, fixpoints over reference graphs).  Always labelled `bounded`, never counted as proved.

A check is a pair of functions in pyvc.boundedchecks:  <name>_cases(tier) -> iterable of JSON-able inputs,
<name>(input) -> None | description of the violated contract clause.  A violation is replayable natively:
    {"kind": "call", "qualname": "pyvc.boundedchecks:<name>", "kwargs": {"case": input}, "violates": "result is not None"}
"""
from __future__ import annotations

import itertools
import multiprocessing as mp
import os
import signal
import threading
import time

from .core import Obligation, PROVED, REFUTED, ERROR


class _CaseTimeout(BaseException):
    pass


def _worker(args):
    name, chunk = args
    from . import boundedchecks
    fn = getattr(boundedchecks, name)
    out = []
    # every case runs real code of the tree under test: a case that does not come back (a loop that stopped terminating) is
    # a failed case with a reason, not a check that never ends
    limit = float(os.environ.get("PYVC_BOUNDED_CASE_SECONDS", "120"))
    can_alarm = threading.current_thread() is threading.main_thread()

    def on_alarm(signum, frame):
        raise _CaseTimeout()
    for case in chunk:
        old = signal.signal(signal.SIGALRM, on_alarm) if can_alarm else None
        if can_alarm:
            signal.setitimer(signal.ITIMER_REAL, limit)
        try:
            r = fn(case)
        except _CaseTimeout:
            r = f"the real code did not return within {limit:.0f} s on this case (non-termination)"
        except BaseException as e:  # noqa
            r = f"contract check crashed: {type(e).__name__}: {e}"
        finally:
            if can_alarm:
                signal.setitimer(signal.ITIMER_REAL, 0)
                signal.signal(signal.SIGALRM, old)
        if r is not None:
            out.append((case, r))
            if len(out) >= 3 or "(non-termination)" in r:
                break
    return len(chunk), out


def run(rep, prop, name, unit, where, statement, bound, tier, known=None, kf=None):
    """known: {finding id: predicate(case) -> bool}  cases explained by a listed known finding"""
    from . import boundedchecks
    from .core import run_native
    t0 = time.time()
    cases = list(getattr(boundedchecks, name + "_cases")(tier))
    ob = Obligation(id=f"{prop}.bounded.{name}", props=[prop], unit=unit, where=where, backend="cpython (run-time contract, "
                    "exhaustive small scope)", bounded=True, formula=f"{statement}   [bounded: {bound}]")
    procs = max(1, (os.cpu_count() or 2) - 1)
    chunks = [cases[i::procs * 4] for i in range(procs * 4)]
    chunks = [c for c in chunks if c]
    bad = []
    n = 0
    if os.environ.get("PYVC_SERIAL") or len(cases) < 200:
        for c in chunks:
            k, out = _worker((name, c))
            n += k
            bad.extend(out)
    else:
        with mp.get_context("fork").Pool(procs) as pool:
            for k, out in pool.imap_unordered(_worker, [(name, c) for c in chunks]):
                n += k
                bad.extend(out)
    ob.time_s = time.time() - t0
    explained = set()
    unexplained = []
    for case, why in bad:
        hit = None
        for fid, pred in (known or {}).items():
            e = kf.get(fid) if kf else None
            if e is not None and pred(case, why):
                hit = fid
                break
        if hit:
            explained.add(hit)
        else:
            unexplained.append((case, why))
    live = []
    for fid in sorted(explained):
        e = kf.get(fid)
        if run_native(e["replay"]).get("violates"):
            live.append(fid)
            if (fid, e["what"]) not in rep.known_lines:
                rep.known_lines.append((fid, e["what"]))
        else:
            # stale finding explains nothing: its cases count as violations
            unexplained.extend([(c, w) for c, w in bad if (known or {})[fid](c, w)])
    if unexplained:
        case, why = unexplained[0]
        ob.status = REFUTED
        ob.detail = f"{len(unexplained)} violating case(s) among {n}; first: {why}"
        ob.witness = {"kind": "call", "qualname": f"pyvc.boundedchecks:{name}", "args": [], "kwargs": {"case": case},
                      "violates": "result is not None"}
    else:
        ob.status = PROVED
        ob.detail = f"contract held on all {n} enumerated cases" + (f" outside the known findings {live}" if live else "")
        ob.findings = []
    rep.add(ob)
    rep.bounded.append({"id": ob.id, "bound": bound, "cases": n, "violations": len(unexplained), "known": live,
                        "time_s": round(ob.time_s, 2)})
    return ob
