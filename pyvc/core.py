"""Shared bookkeeping: obligations, known findings, replay files, evidence, exit codes.

Exit codes of a check: 0 = every obligation discharged (known findings printed); 1 = VIOLATION (failed obligation);
2 = undecided (solver unknown/timeout, unit out of reach or not found, zero obligations); 3 = checker crash or
engine/CPython disagreement.  `unknown`, time-outs and tracebacks are never mapped to 1.
"""
from __future__ import annotations

import json
import os
import subprocess
import sys
import time
from dataclasses import dataclass, field, asdict

VERIF = os.path.dirname(os.path.dirname(os.path.abspath(__file__)))
# evidence/ and replays/ of runs against scratch copies (mutants, seeds) go elsewhere so that they do not clobber the real ones
OUT_DIR = os.environ.get("PYVC_OUT_DIR") or VERIF
REPO = os.environ.get("PYVC_REPO", "/repo")
PY = sys.executable

PROVED, REFUTED, UNDECIDED, ERROR = "proved", "refuted", "undecided", "error"


@dataclass
class Obligation:
    id: str
    props: list
    unit: str                    # function qualname / template site / lemma name
    where: str = ""              # file:line in /repo
    backend: str = ""            # automata | z3 | cpython-exhaustive | syntactic | ...
    status: str = UNDECIDED
    detail: str = ""             # verifier output (reason, counterexample at the abstract level)
    witness: dict | None = None  # concrete replayable input (see replay.py) if one was found
    time_s: float = 0.0
    restricted: bool = False     # proved only with known-finding classes excluded from the pre-condition
    findings: list = field(default_factory=list)   # known-finding ids this restricted proof relies on
    unrestricted_of: str | None = None
    bounded: bool = False        # a bounded stand-in: reported, never counted as proved
    formula: str = ""            # human-readable statement of the obligation
    src_hash: str = ""


class KnownFindings:
    def __init__(self, path=None):
        self.path = path or os.path.join(VERIF, "known_findings.json")
        self.by_id = {}
        self.fixed = []
        if os.path.exists(self.path):
            with open(self.path, encoding="utf-8") as f:
                data = json.load(f)
            for e in data.get("findings", []):
                self.by_id[e["id"]] = e
            self.fixed = data.get("fixed", [])

    def get(self, fid):
        return self.by_id.get(fid)

    def for_property(self, pid):
        return [e for e in self.by_id.values() if e["property"] == pid or pid in e.get("also", [])]


def run_native(spec: dict, timeout=120) -> dict:
    """Run a replay spec against the real code in a fresh interpreter; returns {'violates': bool, 'observed': str}.
    spec is interpreted by pyvc.replay (kinds: call, generate, script)."""
    env = dict(os.environ)
    env["PYTHONPATH"] = REPO + os.pathsep + VERIF
    env["PYTHONHASHSEED"] = env.get("PYTHONHASHSEED", "0")
    try:
        p = subprocess.run([PY, "-m", "pyvc.replay", "--spec", json.dumps(spec)], capture_output=True, text=True,
                           timeout=timeout, env=env, cwd=VERIF)
    except subprocess.TimeoutExpired:
        return {"violates": None, "observed": "timeout"}
    out = p.stdout.strip().splitlines()
    for line in reversed(out):
        if line.startswith("{"):
            try:
                return json.loads(line)
            except Exception:
                pass
    return {"violates": None, "observed": f"replay harness failed: rc={p.returncode} {p.stderr[-400:]}"}


class Report:
    """collects obligations for one property check run and turns them into evidence / exit code"""

    def __init__(self, prop_id, tier, seed):
        self.prop_id = prop_id
        self.tier = tier
        self.seed = seed
        self.t0 = time.time()
        self.obligations: list[Obligation] = []
        self.known_lines = []       # (finding id, text)
        self.violations = []        # (obligation, replay path, no_input)
        self.notes = []
        self.functions = {}         # qualname -> {where, hash}
        self.trusted = []
        self.assumptions = []
        self.bounded = []           # bounded stand-ins: dicts
        self.crosscheck = {"samples": 0, "disagreements": 0}
        self.extra = {}
        self.crash = None

    def add(self, ob: Obligation):
        self.obligations.append(ob)
        return ob

    def merge(self, other: "Report"):
        """fold the results of a worker's report into this one"""
        self.obligations.extend(other.obligations)
        for k in other.known_lines:
            if k not in self.known_lines:
                self.known_lines.append(k)
        self.functions.update(other.functions)
        for t in other.trusted:
            if t not in self.trusted:
                self.trusted.append(t)
        for t in other.assumptions:
            if t not in self.assumptions:
                self.assumptions.append(t)
        self.bounded.extend(other.bounded)
        self.crosscheck["samples"] += other.crosscheck["samples"]
        self.crosscheck["disagreements"] += other.crosscheck["disagreements"]
        if "first" in other.crosscheck and "first" not in self.crosscheck:
            self.crosscheck["first"] = other.crosscheck["first"]
        for k, v in other.extra.items():
            if isinstance(v, int) and isinstance(self.extra.get(k, 0), int):
                self.extra[k] = self.extra.get(k, 0) + v
            elif isinstance(v, dict) and isinstance(self.extra.get(k), dict):
                for kk, vv in v.items():
                    if isinstance(vv, int):
                        self.extra[k][kk] = self.extra[k].get(kk, 0) + vv
                    elif isinstance(vv, list):
                        self.extra[k].setdefault(kk, []).extend(vv)
            else:
                self.extra.setdefault(k, v)
        if other.crash and not self.crash:
            self.crash = other.crash

    def fuc(self, qualname, where, h):
        self.functions[qualname] = {"where": where, "hash": h}

    def write_replay(self, ob: Obligation, native: dict | None):
        d = os.path.join(OUT_DIR, "replays", self.prop_id)
        os.makedirs(d, exist_ok=True)
        safe = "".join(c if c.isalnum() or c in "._-" else "_" for c in ob.id)[:150]
        path = os.path.join(d, safe + ".json")
        with open(path, "w", encoding="utf-8") as f:
            json.dump({"property": self.prop_id, "obligation": ob.id, "unit": ob.unit, "where": ob.where,
                       "formula": ob.formula, "backend": ob.backend, "verifier_output": ob.detail,
                       "replay": ob.witness, "native_observation": native}, f, indent=1, ensure_ascii=True)
        return os.path.relpath(path, VERIF)

    def finish(self, level="proof", checker_cmd="", explanation=None, min_obligations=1):
        wall = time.time() - self.t0
        real = [o for o in self.obligations if not o.bounded]
        proved = [o for o in real if o.status == PROVED]
        refuted = [o for o in real if o.status == REFUTED]
        undecided = [o for o in real if o.status in (UNDECIDED, ERROR)]
        # known-finding handling is done by the property driver before finish(): an obligation that is REFUTED here is
        # either explained (o.findings non-empty and a restricted sibling PROVED) or a violation.
        explained = [o for o in refuted if o.findings]
        unexplained = [o for o in refuted if not o.findings]
        rc = 0
        lines = []
        for fid, text in self.known_lines:
            lines.append(f"KNOWN-FINDING: property={self.prop_id} {fid}: {text}")
        for o in unexplained:
            native = None
            tail = ""
            if o.witness is not None:
                native = run_native(o.witness)
                if not native.get("violates"):
                    tail = " no-failing-input-found"
            else:
                tail = " no-failing-input-found"
            path = self.write_replay(o, native)
            lines.append(f"VIOLATION property={self.prop_id} replay={path} obligation={o.id}{tail}")
            self.violations.append((o.id, path, bool(tail)))
            rc = 1
        # bounded stand-ins that found a counterexample are violations as well (they carry a concrete input)
        for o in self.obligations:
            if o.bounded and o.status == REFUTED and not o.findings:
                native = run_native(o.witness) if o.witness else None
                tail = "" if (native and native.get("violates")) else " no-failing-input-found"
                path = self.write_replay(o, native)
                lines.append(f"VIOLATION property={self.prop_id} replay={path} obligation={o.id}{tail}")
                self.violations.append((o.id, path, bool(tail)))
                rc = 1
        if rc == 0 and undecided:
            rc = 2
            for o in undecided:
                lines.append(f"UNDECIDED property={self.prop_id} obligation={o.id}: {o.detail[:300]}")
        if rc == 0 and len(real) < min_obligations:
            rc = 2
            lines.append(f"UNDECIDED property={self.prop_id}: only {len(real)} obligations were generated (vacuity guard)")
        if self.crosscheck["disagreements"]:
            rc = 3
            lines.append(f"ENGINE-ERROR property={self.prop_id}: {self.crosscheck['disagreements']} disagreement(s) between "
                         f"the symbolic summary and CPython; nothing from this run is to be believed")
        if self.crash:
            rc = 3
            lines.append(f"ENGINE-ERROR property={self.prop_id}: {self.crash}")
        discharged = len(proved) + 0
        samples = []
        for o in (proved[:3] + explained[:2] + unexplained[:2]):
            samples.append({"id": o.id, "unit": o.unit, "where": o.where, "statement": o.formula, "backend": o.backend,
                            "status": o.status, "restricted": o.restricted, "findings": o.findings,
                            "time_s": round(o.time_s, 3)})
        backends = {}
        for o in real:
            b = backends.setdefault(o.backend or "?", {"obligations": 0, "proved": 0, "time_s": 0.0})
            b["obligations"] += 1
            b["proved"] += 1 if o.status == PROVED else 0
            b["time_s"] = round(b["time_s"] + o.time_s, 3)
        # In the evidence, obligations that fail as stated but are explained by a listed known finding are reported
        # separately (failed_unrestricted); `obligations` counts the obligations that this run requires to hold
        # (stated obligations that are not superseded by a restricted form + restricted forms), all of which must
        # be discharged for exit 0.
        required = [o for o in real if not (o.status == REFUTED and o.findings)]
        cov = {
            "obligations": len(required),
            "discharged": len([o for o in required if o.status == PROVED]),
            "checker_cmd": checker_cmd,
            "trusted_base": self.trusted,
            "failed_unrestricted": [{"id": o.id, "findings": o.findings} for o in explained],
            "restricted_proofs": [{"id": o.id, "findings": o.findings} for o in proved if o.restricted],
            "undecided": [{"id": o.id, "why": o.detail[:200]} for o in undecided],
            "functions_under_contract": self.functions,
            "backends": backends,
            "solver_time_s": round(sum(o.time_s for o in real), 3),
            "bounded_standins": self.bounded + [
                {"id": o.id, "status": o.status, "detail": o.detail[:200]} for o in self.obligations
                if o.bounded and o.id not in {b.get("id") for b in self.bounded}],
            "known_findings": [fid for fid, _ in self.known_lines],
            "encoding_crosscheck": self.crosscheck,
            "samples": samples,
            "all_obligations": [{"id": o.id, "status": o.status, "backend": o.backend, "t": round(o.time_s, 3),
                                 **({"restricted": True} if o.restricted else {})} for o in self.obligations],
        }
        if explanation:
            cov["explanation"] = explanation
        cov.update(self.extra)
        ev = {
            "property_id": self.prop_id,
            "tier": self.tier,
            "seed": self.seed,
            "level": level,
            "coverage": cov,
            "assumptions": self.assumptions,
            "wall_s": round(wall, 2),
            "violations": len(self.violations),
        }
        os.makedirs(os.path.join(OUT_DIR, "evidence"), exist_ok=True)
        with open(os.path.join(OUT_DIR, "evidence", f"{self.prop_id}.json"), "w", encoding="utf-8") as f:
            json.dump(ev, f, indent=1, ensure_ascii=True)
        for l in lines:
            print(l)
        print(f"[{self.prop_id}] tier={self.tier} obligations={cov['obligations']} discharged={cov['discharged']} "
              f"failed-unrestricted(known)={len(explained)} violations={len(self.violations)} "
              f"undecided={len(undecided)} wall={wall:.1f}s exit={rc}")
        return rc


# ---- process pool ----------------------------------------------------------------------------------------------------
_TASKS = []


def _run_task(i):
    import traceback
    try:
        return _TASKS[i]()
    except BaseException as e:  # noqa
        r = Report("?", "quick", 0)
        r.crash = f"worker task {i} crashed: {type(e).__name__}: {e}\n{traceback.format_exc()[-1500:]}"
        return r


def run_parallel(tasks, procs=None):
    """tasks: callables returning a Report (executed in forked workers so closures are inherited); returns the Reports"""
    import multiprocessing as mp
    global _TASKS
    if not tasks:
        return []
    procs = procs or min(len(tasks), max(1, (os.cpu_count() or 2) - 1))
    if procs <= 1 or os.environ.get("PYVC_SERIAL"):
        return [t() for t in tasks]
    _TASKS = tasks
    with mp.get_context("fork").Pool(procs) as pool:
        out = pool.map(_run_task, range(len(tasks)), chunksize=1)
    _TASKS = []
    for r in out:
        rr = r[0] if isinstance(r, tuple) else r
        for o in rr.obligations:
            for attr in ("_bad",):
                if hasattr(o, attr):
                    delattr(o, attr)
    return out
