"""Shared specification vocabulary (DESIGN §3): named regular languages over the class alphabet.

All languages are defined from *property-level* notions (what a Python identifier / string-literal body / path
component is), never from the code under verification.
"""
from __future__ import annotations

import keyword

from . import alphabet as _alpha
from .automata import Lang
from .strabs import Vocab


class Spec:
    _inst = None

    def __init__(self):
        A = _alpha.get()
        V = Vocab.get()
        self.A, self.V = A, V
        n = self.named
        ALLC = V.ALLC
        self.ALLC = ALLC
        self.SIGMA = n(Lang.all(), "ANY")
        self.WORD = A.classes_where("word")
        self.XIDS = V.XID_START
        self.XIDC = V.XID_CONT
        self.K1 = frozenset(k for k in range(A.n) if A.preds[k]["word"] and not A.preds[k]["xid_continue"])
        self.DELIM = A.chars(". _-")
        self.NO_K1 = n(Lang.over(ALLC - self.K1), "NO_K1*  (no character matched by \\w that is not XID_Continue)")
        self.NO_K1_NO_RAWDELIM = n(Lang.over(ALLC - self.K1 - A.chars(". -")),
                                   "NO_K1_NO_DELIM*  (additionally none of '.', ' ', '-')")
        self.KEEP = n(Lang.over(self.WORD | self.DELIM), "[\\w. _-]*")
        self.KEYWORDS = V.KEYWORDS
        self.ISIDENT = n(V.ISIDENT, "str.isidentifier")
        self.IDENT = n(V.ISIDENT - V.KEYWORDS, "IDENT  (XID_Start|_ followed by XID_Continue*, not a keyword)")
        self.XIDC_STAR = n(Lang.over(self.XIDC), "XID_Continue*")
        # pre-condition on config.field_prefix / literal prefixes: ASCII letter, then ASCII word characters, and not
        # a prefix of any keyword (so prefix + anything is never a keyword)
        letters = A.chars("abcdefghijklmnopqrstuvwxyzABCDEFGHIJKLMNOPQRSTUVWXYZ")
        wordc = letters | A.chars("0123456789_")
        self.ASCII_LETTERS = letters
        self.SAFE_PREFIX = n((Lang.sym(letters) + Lang.over(wordc)) - Lang.texts(keyword.kwlist).prefixes(),
                             "SAFE_PREFIX  ([A-Za-z][A-Za-z0-9_]* that is not a prefix of a keyword)")
        # path components: non-empty, no '/', '\\', NUL, not '.' or '..'
        bad = A.chars("/\\\x00")
        self.PATH_COMPONENT = n((Lang.sym(ALLC - bad).plus()) - Lang.texts([".", ".."]),
                                "PATH_COMPONENT  (non-empty, no / \\ NUL, not . or ..)")
        self.PATH_COMPONENT_OR_EMPTY = n(self.PATH_COMPONENT | Lang.eps(), "PATH_COMPONENT or empty")
        # bodies of string literals ---------------------------------------------------------------------------------
        dq, bs, nl, cr = ord('"'), ord("\\"), ord("\n"), ord("\r")
        sq = ord("'")
        plain_dq = ALLC - {dq, bs, nl, cr}
        # a body of a non-raw "..." literal that is *faithful*: it contains no backslash at all or only the two
        # escapes \" and \\ ; no bare quote, CR or LF.  (Other escapes would be syntactically fine but change the text.)
        esc = Lang.word((bs, dq)) | Lang.word((bs, bs))
        self.DQ_BODY = n((Lang.sym(plain_dq) | esc).star(), 'DQ_BODY  (body of a "..." literal: no bare ", CR, LF; backslash only as \\" or \\\\)')
        plain_sq = ALLC - {sq, bs, nl, cr}
        escs = Lang.word((bs, sq)) | Lang.word((bs, bs))
        self.SQ_BODY = n((Lang.sym(plain_sq) | escs).star(), "SQ_BODY  (body of a '...' literal)")
        # no bare double quote at all (every " is preceded by a backslash) -- the weak guarantee of remove_string_escapes
        self.NO_ADJ_DQ = n(~(self.SIGMA + Lang.word((dq, dq)) + self.SIGMA), 'no two adjacent " characters')
        self.NO_LEADING_DQ = n(~(Lang.sym({dq}) + self.SIGMA), 'does not start with "')
        self.NO_TRAILING_BS = n(~(self.SIGMA + Lang.sym({bs})), "does not end with a backslash")
        self.NO_TRAILING_DQ = n(~(self.SIGMA + Lang.sym({dq})), 'does not end with "')
        # body of a """...""" docstring as emitted by safe_docstring (content followed by a space or newline):
        # a run of three unescaped quotes never occurs.  Tokenizer view: scanning left to right, a backslash skips the
        # next character (also in raw literals), three consecutive unskipped quotes terminate.
        self.DOC_BODY = n(self._doc_body(), 'DOC_BODY  (no unescaped """ inside; does not end in an odd backslash run)')

    def _doc_body(self):
        """DFA: states q0 (no pending quotes), q1 (one unescaped quote seen), q2 (two), esc (after backslash), dead.
        Accepting: q0 only (a trailing unescaped quote would merge with the closing delimiter, a trailing odd backslash
        would escape it)."""
        from .automata import DFA
        A = self.A
        n = A.n
        dq, bs = ord('"'), ord("\\")
        q0, q1, q2, esc, dead = 0, 1, 2, 3, 4
        rows = []
        for s in (q0, q1, q2):
            row = [q0] * n
            row[bs] = esc
            row[dq] = {q0: q1, q1: q2, q2: dead}[s]
            rows.append(row)
        rows.append([q0] * n)          # esc: any character is skipped
        rows.append([dead] * n)
        return Lang(DFA(rows, [True, False, False, False, False]))

    @staticmethod
    def named(L: Lang, name: str) -> Lang:
        L._name = name
        return L

    @classmethod
    def get(cls):
        if cls._inst is None:
            cls._inst = Spec()
        return cls._inst
