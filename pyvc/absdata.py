"""Lazily materialised symbolic containers for Engine B (lazy initialisation): dictionaries whose keys are symbolic
strings and whose size is unknown, sets that only record what is added to them.

LazyMap: a dict of unknown content.  Known entries are (key, value) pairs with pairwise distinct keys; a lookup of a
symbolic key forks: equal to a known key / a further, so far unknown entry (created by the value factory and remembered)
/ absent (remembered).  Every mutation is recorded in `log` so that frame conditions ("nothing else changed") can be
stated in contracts.
"""
from __future__ import annotations

import itertools

import z3

from .symexec import PyRaise, SBool, SFunc, SList, SObj, SOpaque, SSet, SStr, STuple, SV, Unsupported

_ids = itertools.count()


def _key_term(I, k):
    if isinstance(k, str):
        return z3.StringVal(k)
    if isinstance(k, SStr):
        return k.t
    if isinstance(k, SObj) and "__str__" in k.fields:
        return _key_term(I, k.fields["__str__"])
    if isinstance(k, SV):
        return I.to_str_term(k)
    raise Unsupported(f"LazyMap key {k!r}")


class LazyMap(SOpaque):
    def __init__(self, name, factory=None, entries=None, absent=None, complete=False):
        super().__init__(name, cls=dict)
        self.factory = factory                  # (I, key) -> value for a so far unknown entry; None: no unknown entries
        self.entries = list(entries or [])      # [(key value, value)]  keys pairwise distinct (assumed on creation)
        self.absent = list(absent or [])        # keys known not to be present
        self.complete = complete or factory is None
        self.log = []                           # ("set", key, value) | ("del", key)
        self.uid = next(_ids)

    @property
    def nonempty(self):
        """truthiness: known only for a map all of whose entries are known (a dict the code built itself)"""
        return bool(self.entries) if self.complete else None

    def length(self, I):
        if not self.complete:
            raise Unsupported("len of a map of unknown content")
        return len(self.entries)

    # -- core ----------------------------------------------------------------------------------------------------------
    def lookup(self, I, k):
        """returns (found: bool, value)"""
        kt = _key_term(I, k)
        for key, val in self.entries:
            if I.branch(_key_term(I, key) == kt):
                return True, val
        for a in self.absent:
            if I.branch(_key_term(I, a) == kt):
                return False, None
        if not self.complete and I.branch_free():
            v = self.factory(I, k)
            self.entries.append((k, v))
            return True, v
        self.absent.append(k)
        return False, None

    def store(self, I, k, v):
        kt = _key_term(I, k)
        for i, (key, val) in enumerate(self.entries):
            if I.branch(_key_term(I, key) == kt):
                self.entries[i] = (key, v)
                self.log.append(("set", k, v))
                return
        for a in list(self.absent):
            if I.branch(_key_term(I, a) == kt):
                self.absent.remove(a)
                break
        else:
            # k is a key we have not met: either it overwrites an unknown entry or it is new; both leave the same map
            pass
        self.entries.append((k, v))
        self.log.append(("set", k, v))

    def delete(self, I, k):
        found, _ = self.lookup(I, k)
        if not found:
            I.raise_(KeyError, "key")
        kt = _key_term(I, k)
        self.entries = [(key, val) for key, val in self.entries if not I.must(_key_term(I, key) == kt)]
        self.absent.append(k)
        self.log.append(("del", k))

    def copy(self, name=None):
        m = LazyMap(name or self.name + "'", self.factory, list(self.entries), list(self.absent), self.complete)
        m.parent = self
        return m

    # -- hooks used by the interpreter -----------------------------------------------------------------------------------
    def getattr(self, I, name):
        def meth(fn):
            return SFunc("model", fn)
        if name == "get":
            def get(I2, a, k):
                found, v = self.lookup(I2, a[0])
                return v if found else (a[1] if len(a) > 1 else k.get("default"))
            return meth(get)
        if name == "setdefault":
            def setdefault(I2, a, k):
                found, v = self.lookup(I2, a[0])
                if found:
                    return v
                nv = a[1] if len(a) > 1 else None
                self.store(I2, a[0], nv)
                return nv
            return meth(setdefault)
        if name == "pop":
            def pop(I2, a, k):
                found, v = self.lookup(I2, a[0])
                if not found:
                    if len(a) > 1:
                        return a[1]
                    I2.raise_(KeyError, "key")
                self.delete(I2, a[0])
                return v
            return meth(pop)
        if name == "copy":
            return meth(lambda I2, a, k: self.copy())
        if name in ("items", "keys", "values"):
            def view(I2, a, k):
                if not self.complete:
                    raise Unsupported(f"{name}() of a dict of unknown content")
                if name == "items":
                    return SList([STuple([key, v]) for key, v in self.entries])
                return SList([key if name == "keys" else v for key, v in self.entries])
            return meth(view)
        if name == "update":
            def update(I2, a, k):
                for key, v in I2.iterate(a[0].getattr(I2, "items").target(I2, [], {})) if isinstance(a[0], LazyMap) else \
                        [tuple(I2.iterate(p)) for p in I2.iterate(a[0])]:
                    self.store(I2, key, v)
            return meth(update)
        raise Unsupported(f"dict method {name} on a dict of unknown content")

    def getitem(self, I, key):
        found, v = self.lookup(I, key)
        if not found:
            I.raise_(KeyError, "key")
        return v

    def setitem(self, I, key, v):
        self.store(I, key, v)

    def delitem(self, I, key):
        self.delete(I, key)

    def contains(self, I, key):
        found, _ = self.lookup(I, key)
        return found


class GrowSet(SOpaque):
    """a set of unknown content that records what is added (update/add); membership of other things is unknown"""

    def __init__(self, name):
        super().__init__(name, cls=set)
        self.added = []         # values (or whole sets) added
        self.log = []
        self.nonempty = z3.Bool(f"{name}_nonempty_{next(_ids)}")     # python truthiness of the set

    def getattr(self, I, name):
        if name == "update":
            def update(I2, a, k):
                for s in a:
                    self.added.append(("update", s))
                    self.log.append(("update", s))
            return SFunc("model", update)
        if name == "add":
            def add(I2, a, k):
                self.added.append(("add", a[0]))
                self.log.append(("add", a[0]))
            return SFunc("model", add)
        if name == "copy":
            def cp(I2, a, k):
                g = GrowSet(self.name + "'")
                g.added = list(self.added)
                return g
            return SFunc("model", cp)
        raise Unsupported(f"set method {name} on a set of unknown content")


# ---- array-backed containers of unbounded size (for inductive loop invariants) -----------------------------------------

class SymSet(SOpaque):
    """a python set of unknown size whose content is a z3 set term (Array K Bool).  `enc(I, value) -> K term` encodes an
    element.  The object is mutable (`term` is updated in place), so aliasing between two program variables is the
    python-level identity of this object; equality of two different objects is extensional equality of the terms.
    len() is an uninterpreted cardinality with  card >= 0  and  card == 0  <=>  term == empty  (all the code under
    contract asks)."""

    def __init__(self, name, ksort, enc, term=None):
        super().__init__(name, cls=set)
        self.ksort, self.enc = ksort, enc
        self.term = term if term is not None else z3.EmptySet(ksort)

    @property
    def nonempty(self):
        return self.term != z3.EmptySet(self.ksort)

    def length(self, I):
        from .symexec import SInt
        card = z3.Function(f"card[{self.ksort}]", z3.SetSort(self.ksort), z3.IntSort())
        c = card(self.term)
        I.fact(c >= 0)
        I.fact((c == 0) == (self.term == z3.EmptySet(self.ksort)))
        return SInt(c)

    def contains(self, I, v):
        return z3.IsMember(self.enc(I, v), self.term)

    def opaque_eq(self, I, other):
        if isinstance(other, SymSet):
            return self.term == other.term
        return False

    def as_absset(self):
        return SymSet(self.name + "'", self.ksort, self.enc, self.term)

    def havoc_inplace(self, I):
        self.term = I.fresh("set", z3.SetSort(self.ksort))

    def getattr(self, I, name):
        if name == "add":
            def add(I2, a, k):
                self.term = z3.SetAdd(self.term, self.enc(I2, a[0]))
            return SFunc("model", add)
        if name == "copy":
            return SFunc("model", lambda I2, a, k: self.as_absset())
        if name == "discard":
            def discard(I2, a, k):
                self.term = z3.SetDel(self.term, self.enc(I2, a[0]))
            return SFunc("model", discard)
        raise Unsupported(f"set method {name} on a set of unbounded size")


class SymDict(SOpaque):
    """a python dict of unknown size: z3 Array String -> V with a distinguished `absent` value of V.  `dec(I, v term)`
    turns a stored term into the python-side value, `encv(I, value)` the reverse."""

    def __init__(self, name, vsort, absent, encv, dec, term=None):
        super().__init__(name, cls=dict)
        self.vsort, self.absent, self.encv, self.dec = vsort, absent, encv, dec
        self.term = term if term is not None else z3.K(z3.StringSort(), absent)

    @property
    def nonempty(self):
        return self.term != z3.K(z3.StringSort(), self.absent)

    def _k(self, I, k):
        return _key_term(I, k)

    def havoc_inplace(self, I):
        self.term = I.fresh("map", z3.ArraySort(z3.StringSort(), self.vsort))

    def contains(self, I, k):
        return z3.Select(self.term, self._k(I, k)) != self.absent

    def getitem(self, I, k):
        kt = self._k(I, k)
        if I.branch(z3.Select(self.term, kt) == self.absent):
            I.raise_(KeyError, "key")
        return self.dec(I, z3.Select(self.term, kt))

    def setitem(self, I, k, v):
        self.term = z3.Store(self.term, self._k(I, k), self.encv(I, v))

    def delitem(self, I, k):
        kt = self._k(I, k)
        if I.branch(z3.Select(self.term, kt) == self.absent):
            I.raise_(KeyError, "key")
        self.term = z3.Store(self.term, kt, self.absent)

    def getattr(self, I, name):
        if name in ("pop", "get"):
            def pop(I2, a, k):
                kt = self._k(I2, a[0])
                cur = z3.Select(self.term, kt)
                if I2.branch(cur == self.absent):
                    if len(a) > 1 or "default" in k:
                        return a[1] if len(a) > 1 else k["default"]
                    if name == "get":
                        return None
                    I2.raise_(KeyError, "key")
                v = self.dec(I2, cur)
                if name == "pop":
                    self.term = z3.Store(self.term, kt, self.absent)
                return v
            return SFunc("model", pop)
        raise Unsupported(f"dict method {name} on a dict of unbounded size")


class SymList(SOpaque):
    """a python list of strings of unknown length, as far as the code under contract uses it: membership (a set term),
    the last element, emptiness.  append() updates all three."""

    def __init__(self, name, members=None, last=None, nonempty=None):
        super().__init__(name, cls=list)
        S = z3.StringSort()
        self.members = members if members is not None else z3.EmptySet(S)
        self.last = last if last is not None else z3.StringVal("")
        self._nonempty = nonempty if nonempty is not None else z3.BoolVal(False)

    @property
    def nonempty(self):
        return self._nonempty

    def contains(self, I, v):
        return z3.IsMember(I.to_str_term(v), self.members)

    def havoc_inplace(self, I):
        self.members = I.fresh("members", z3.SetSort(z3.StringSort()))
        self.last = I.fresh("last", z3.StringSort())
        self._nonempty = I.fresh("nonempty", z3.BoolSort())

    def getitem(self, I, key):
        if key != -1:
            raise Unsupported("only [-1] of a list of unknown length")
        if not I.branch(self._nonempty):
            I.raise_(IndexError, "list index out of range")
        return SStr(self.last)

    def getattr(self, I, name):
        if name == "append":
            def append(I2, a, k):
                t = I2.to_str_term(a[0])
                self.members = z3.SetAdd(self.members, t)
                self.last = t
                self._nonempty = z3.BoolVal(True)
            return SFunc("model", append)
        raise Unsupported(f"list method {name} on a list of unknown length")


class CountList(SOpaque):
    """a python list of unknown content of which only the length matters to the contract: append / extend / len /
    truthiness / [*a, *b] displays.  `tag` says what it holds (for clauses)."""

    def __init__(self, name, count=None):
        super().__init__(name, cls=list)
        self.count = count if count is not None else z3.IntVal(0)

    @property
    def nonempty(self):
        return self.count > 0

    def length(self, I):
        from .symexec import SInt
        return SInt(self.count)

    def havoc_inplace(self, I):
        self.count = I.fresh("count", z3.IntSort())
        I.assume(self.count >= 0)

    def getattr(self, I, name):
        if name == "append":
            def append(I2, a, k):
                self.count = self.count + 1
            return SFunc("model", append)
        if name == "extend":
            def extend(I2, a, k):
                o = a[0]
                if isinstance(o, CountList):
                    self.count = self.count + o.count
                elif isinstance(o, SList):
                    self.count = self.count + len(o.items)
                else:
                    raise Unsupported("extend of a counted list by something else")
            return SFunc("model", extend)
        raise Unsupported(f"list method {name} on a counted list")

    def concat_display(self, I, before, rest):
        n = self.count + len(before)
        for r in rest:
            if isinstance(r, tuple) and r and r[0] == "item":
                n = n + 1
            elif isinstance(r, CountList):
                n = n + r.count
            elif isinstance(r, SList):
                n = n + len(r.items)
            else:
                raise Unsupported("list display mixing a counted list with something else")
        return CountList(self.name + "+", n)


class _WitnessName(SOpaque):
    """the `name` of the existential witness of a NamedList: comparing it with x asks whether some element is named x"""

    def __init__(self, owner):
        super().__init__("name-of-some-element", cls=str)
        self.owner = owner

    def eq_any(self, I, other):
        return z3.IsMember(I.to_str_term(other), self.owner.names)


class NamedList(SOpaque):
    """a python list of records of unknown length of which the code only asks `any(x for x in L if x.name == n)` and to
    which it appends: the set of the names of its elements (a z3 set term).  Iterating it yields ONE element, the
    existential witness, whose .name compares equal to n exactly when some element is named n -- sound for the
    `any(... if x.name == n)` idiom only (any other use of the witness is out of reach)."""

    def __init__(self, name, names=None):
        super().__init__(name, cls=list)
        self.names = names if names is not None else z3.EmptySet(z3.StringSort())

    def iterate_hook(self, I):
        w = SOpaque("some element of " + self.name, cls=object)
        w.attrs["name"] = _WitnessName(self)
        w.getattr = lambda I2, n: (_ for _ in ()).throw(Unsupported(f"attribute {n} of the existential witness of a list"))
        return [w]

    def getattr(self, I, name):
        if name == "append":
            def append(I2, a, k):
                self.names = z3.SetAdd(self.names, I2.to_str_term(I2.get_attr(a[0], "name")))
            return SFunc("model", append)
        raise Unsupported(f"list method {name} on a list known by the names of its elements")

    def deepcopy_hook(self):
        return NamedList(self.name + "'", self.names)


class ElemList(SOpaque):
    """a python list of unknown length known by the SET of its elements (each element carries a z3 term `.term`) and a
    count: append / extend / len / truthiness.  Iterating it yields one generic element (produced by `witness`), which is
    only good for building values the contract does not look at (e.g. an aggregated message)."""

    def __init__(self, name, sort, members=None, count=None, witness=None):
        super().__init__(name, cls=list)
        self.sort = sort
        self.members = members if members is not None else z3.EmptySet(sort)
        self.count = count if count is not None else z3.IntVal(0)
        self.witness = witness

    @property
    def nonempty(self):
        return self.count > 0

    def length(self, I):
        from .symexec import SInt
        return SInt(self.count)

    def facts(self, x):
        """what membership implies about the count"""
        return z3.And(self.count >= 0, z3.Implies(z3.IsMember(x, self.members), self.count > 0),
                      z3.Implies(self.count == 0, self.members == z3.EmptySet(self.sort)))

    def iterate_hook(self, I):
        if self.witness is None:
            raise Unsupported(f"iteration over {self.name}")
        return [self.witness(I)]

    def getattr(self, I, name):
        if name == "append":
            def append(I2, a, k):
                self.members = z3.SetAdd(self.members, a[0].term)
                self.count = self.count + 1
            return SFunc("model", append)
        if name == "extend":
            def extend(I2, a, k):
                o = a[0]
                if not isinstance(o, ElemList):
                    raise Unsupported("extend of an element list by something else")
                self.members = z3.SetUnion(self.members, o.members)
                self.count = self.count + o.count
            return SFunc("model", extend)
        raise Unsupported(f"list method {name} on {self.name}")

    def deepcopy_hook(self):
        return ElemList(self.name + "'", self.sort, self.members, self.count, self.witness)


class UnknownSet(SOpaque):
    """a python set of unknown content: membership is an unknown boolean -- but asking it for an UNHASHABLE value (a list, a
    dict, an instance of a class that defines __eq__ without __hash__, e.g. an attrs class) raises TypeError, as in python"""

    def __init__(self, name):
        super().__init__(name, cls=set)

    def contains(self, I, x):
        from .symexec import SDict
        if isinstance(x, SV):
            x = I.view(x)
        cls = getattr(x, "cls", None)
        if isinstance(x, (SList, SDict, SSet)) or (isinstance(x, SObj) and isinstance(cls, type) and getattr(cls, "__hash__", 1) is None):
            I.raise_(TypeError, f"unhashable type: '{getattr(cls, '__name__', type(x).__name__)}'")
        return I.fresh(f"member_of_{self.name}", z3.BoolSort())
