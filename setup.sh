#!/bin/sh
# Build the overlay venv used by every check: Python 3.12 of /venv + z3-solver/cvc5 from the offline wheelhouse,
# with /venv's site-packages (openapi_python_client editable install, pydantic, attrs, jinja2, mypy, ...) added via .pth.
set -e
cd "$(dirname "$0")"
V=.venv
if [ ! -x "$V/bin/python" ] || ! "$V/bin/python" -c "import z3, openapi_python_client" 2>/dev/null; then
  rm -rf "$V"
  /venv/bin/python -m venv "$V"
  PIP_NO_INDEX=1 "$V/bin/pip" install -q --no-index --find-links /opt/veriftools/wheels z3-solver cvc5 >/dev/null
  SP=$("$V/bin/python" -c "import sysconfig; print(sysconfig.get_paths()['purelib'])")
  echo "import site; site.addsitedir('/venv/lib/python3.12/site-packages')" > "$SP/zz_repo.pth"
fi
"$V/bin/python" -c "import z3, cvc5, openapi_python_client, jinja2; print('pyvc venv ok: z3', z3.get_version_string())"
