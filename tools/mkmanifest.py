#!/usr/bin/env python3
"""Regenerates MANIFEST.json from the table below (kept in one place so the manifest is always schema-valid)."""
import json, os, sys
HERE = os.path.dirname(os.path.dirname(os.path.abspath(__file__)))
sys.path.insert(0, HERE)
from props.registry import CLAIMED, NOT_APPLICABLE   # noqa

BASELINE = "cd /repo && /venv/bin/python -m pytest -ra -q -p no:cacheprovider --timeout=900 --continue-on-collection-errors"
m = {
    "version": 1,
    "setup_cmd": "./setup.sh",
    "hooks": {
        "guard": "OPENAPI_PYTHON_CLIENT_VERIF",
        "enable": "no hooks: contracts live in sidecar files under /verif/contracts and the real sources/templates are "
                  "re-read from /repo's working tree by every check; nothing in /repo is instrumented",
        "baseline_off_cmd": BASELINE,
        "source_commits": [],
        "add_only": True,
    },
    "engines": [
        {"name": "pyvc-A", "path": "pyvc/alphabet.py pyvc/automata.py pyvc/strabs.py pyvc/engine_a.py",
         "serves_properties": sorted(p for p, c in CLAIMED.items() if "A" in c["engines"]),
         "kind_free_text": "Hoare triples over regular languages on the real string functions: class alphabet computed "
                           "exhaustively from the running CPython, exact automata inclusion (all strings, all lengths)"},
        {"name": "pyvc-B", "path": "pyvc/symexec.py pyvc/engine_b.py",
         "serves_properties": sorted(p for p, c in CLAIMED.items() if "B" in c["engines"]),
         "kind_free_text": "ast -> z3 symbolic executor over the real function bodies with sidecar contracts, per-path "
                           "queries, loop invariants; exceptions as outcomes"},
        {"name": "pyvc-C", "path": "pyvc/sites.py",
         "serves_properties": sorted(p for p, c in CLAIMED.items() if "C" in c["engines"]),
         "kind_free_text": "refinement typing of every Jinja output site against proven producer post-conditions"},
        {"name": "pyvc-F", "path": "pyvc/fragments.py",
         "serves_properties": sorted(p for p, c in CLAIMED.items() if "F" in c["engines"]),
         "kind_free_text": "generated-code fragments rendered from the real templates with real property objects and "
                           "verified as code by engine B"},
    ],
    "checks": [],
    "not_applicable": [{"property_id": p, "reason": r} for p, r in sorted(NOT_APPLICABLE.items())],
    "notes": "Contract-based deductive verification with a self-built verifier (no Python deductive verifier is "
             "installed); see DESIGN.md. Exit codes: 0 held, 1 VIOLATION, 2 undecided, 3 engine error.",
}
for pid in sorted(CLAIMED):
    c = CLAIMED[pid]
    m["checks"].append({
        "property_id": pid,
        "quick_cmd": f"./check {pid} --tier quick",
        "thorough_cmd": f"./check {pid} --tier thorough",
        "evidence_file": f"/verif/evidence/{pid}.json",
        "replay_cmd_template": "./check replay {path}",
        "engine": "+".join("pyvc-" + e for e in c["engines"]),
        "level_claimed": {"category": c.get("level", "proof"), "text": c["text"], "design_ref": c.get("design_ref", "DESIGN.md section 4")},
        "level_note": c["note"],
        "technique": c["technique"],
    })
m["engines"] = [e for e in m["engines"] if e["serves_properties"]]
with open(os.path.join(HERE, "MANIFEST.json"), "w") as f:
    json.dump(m, f, indent=1)
print("MANIFEST.json:", len(m["checks"]), "checks,", len(m["not_applicable"]), "not applicable")
