#!/usr/bin/env python3
"""Regenerates MANIFEST.json from the table below (kept in one place so the manifest is always schema-valid)."""
import json, os, sys
HERE = os.path.dirname(os.path.dirname(os.path.abspath(__file__)))
sys.path.insert(0, HERE)
from props.registry import CLAIMED, NOT_APPLICABLE   # noqa

BASELINE = "cd /repo && /venv/bin/python -m pytest -ra -q -p no:cacheprovider --timeout=900 --continue-on-collection-errors"
m = {
    "version": 1,
    "setup_cmd": "./setup.sh",
    "hooks": {
        "guard": "OPENAPI_PYTHON_CLIENT_VERIF",
        "enable": "no hooks: contracts live in sidecar files under /verif/contracts and the real sources/templates are "
                  "re-read from /repo's working tree by every check; nothing in /repo is instrumented",
        "baseline_off_cmd": BASELINE,
        "source_commits": [],
        "add_only": True,
    },
    "engines": [
        {"name": "pyvc-A", "path": "pyvc/alphabet.py pyvc/automata.py pyvc/strabs.py pyvc/engine_a.py",
         "serves_properties": sorted(p for p, c in CLAIMED.items() if "A" in c["engines"]),
         "kind_free_text": "Hoare triples over regular languages on the real string functions: class alphabet computed "
                           "exhaustively from the running CPython, exact automata inclusion (all strings, all lengths)"},
        {"name": "pyvc-B", "path": "pyvc/symexec.py pyvc/engine_b.py pyvc/libmodels.py pyvc/absdata.py pyvc/crosscheck_b.py pyvc/natinterp.py",
         "serves_properties": sorted(p for p, c in CLAIMED.items() if "B" in c["engines"]),
         "kind_free_text": "ast -> z3 symbolic executor over the real function bodies with sidecar contracts: decision-replay "
                           "path exploration, one validity query per path and clause, callee summaries, inductive loop "
                           "invariants (for/while, nested, variants, ghost state, abstract containers as z3 terms), exceptions as "
                           "outcomes; cross-checked against CPython on concrete inputs; z3 unsat answers re-decided by cvc5"},
        {"name": "pyvc-C", "path": "pyvc/sites.py",
         "serves_properties": sorted(p for p, c in CLAIMED.items() if "C" in c["engines"]),
         "kind_free_text": "document slots x lexical contexts: a slot document with a unique marker in every string position is "
                           "rendered by the real generator, CPython's tokenizer gives the lexical context of every occurrence, "
                           "and for each (slot, context) pair the inclusion L(slot) <= Required(context) is discharged by "
                           "engine A for all strings (contexts are measured, not derived by a static analysis of the templates)"},
        {"name": "pyvc-F", "path": "pyvc/fragments.py",
         "serves_properties": sorted(p for p, c in CLAIMED.items() if "F" in c["engines"]),
         "kind_free_text": "generated-code fragments rendered from the real templates with real property objects and "
                           "verified as code by engine B"},
    ],
    "checks": [],
    "not_applicable": [{"property_id": p, "reason": r} for p, r in sorted(NOT_APPLICABLE.items())],
    "notes": "Contract-based deductive verification with a self-built verifier (no Python deductive verifier is "
             "installed); see DESIGN.md. Exit codes: 0 held, 1 VIOLATION, 2 undecided, 3 engine error.",
}
for pid in sorted(CLAIMED):
    c = CLAIMED[pid]
    m["checks"].append({
        "property_id": pid,
        "quick_cmd": f"./check {pid} --tier quick",
        "thorough_cmd": f"./check {pid} --tier thorough",
        "evidence_file": f"/verif/evidence/{pid}.json",
        "replay_cmd_template": "./check replay {path}",
        "engine": "+".join("pyvc-" + e for e in c["engines"]),
        "level_claimed": {"category": c.get("level", "proof"), "text": c["text"], "design_ref": c.get("design_ref", "DESIGN.md section 4")},
        "level_note": c["note"],
        "technique": c["technique"],
    })
m["engines"] = [e for e in m["engines"] if e["serves_properties"]]
with open(os.path.join(HERE, "MANIFEST.json"), "w") as f:
    json.dump(m, f, indent=1)
print("MANIFEST.json:", len(m["checks"]), "checks,", len(m["not_applicable"]), "not applicable")
