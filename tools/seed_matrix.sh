#!/bin/sh
# tools/seed_matrix.sh [seed-id ...]  -- run checks against every seeded change in scratch worktrees; one line per seed.
# Default: the seed's own property plus the properties listed in its meta.json "related" (if any); CHECKS="C01 C02 ..."
# overrides; CHECKS=all runs every claimed check.
HERE="$(cd "$(dirname "$0")/.." && pwd)"
cd "$HERE"
SEEDS="$@"
[ -z "$SEEDS" ] && SEEDS=$(ls seeded)
CLAIMED=$(/venv/bin/python -c "import json; print(' '.join(c['property_id'] for c in json.load(open('MANIFEST.json'))['checks']))")
for s in $SEEDS; do
  P=$(echo $s | cut -d- -f1)
  if [ "$CHECKS" = "all" ]; then LIST="$CLAIMED"; elif [ -n "$CHECKS" ]; then LIST="$CHECKS"; else
    REL=$(/venv/bin/python -c "import json; print(' '.join(json.load(open('seeded/$s/meta.json')).get('related', [])))")
    LIST="$P $REL"
  fi
  OUT=$(tools/mutant_run.sh seeded/$s/patch.diff $LIST 2>&1 | grep "^==" | tr '\n' ' ')
  echo "$s: $OUT"
done
