#!/bin/sh
# tools/seed_matrix.sh [seed-id ...]  -- run the claimed checks of the seed's property (and any others given in CHECKS)
# against every seeded change; prints one line per seed: which checks raise a VIOLATION.
HERE="$(cd "$(dirname "$0")/.." && pwd)"
cd "$HERE"
SEEDS="$@"
[ -z "$SEEDS" ] && SEEDS=$(ls seeded)
CLAIMED=$(/venv/bin/python -c "import json; print(' '.join(c['property_id'] for c in json.load(open('MANIFEST.json'))['checks']))")
for s in $SEEDS; do
  P=$(echo $s | cut -d- -f1)
  LIST="${CHECKS:-$CLAIMED}"
  OUT=$(tools/mutant_run.sh seeded/$s/patch.diff $LIST 2>&1 | grep "^==" | tr '\n' ' ')
  echo "$s: $OUT"
done
