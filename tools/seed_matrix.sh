#!/bin/sh
# tools/seed_matrix.sh [seed-id ...]  -- run checks against every seeded change in scratch worktrees; one line per seed.
# Default: the seed's own property plus the properties listed in its meta.json "related" (if any); CHECKS="C01 C02 ..."
# overrides; CHECKS=all runs every claimed check.  After each exit code: [D:<n> B:<m>] = number of violated deductive /
# bounded obligations (bounded stand-ins have ".bounded." in their id).
HERE="$(cd "$(dirname "$0")/.." && pwd)"
cd "$HERE"
SEEDS="$@"
[ -z "$SEEDS" ] && SEEDS=$(ls seeded)
CLAIMED=$(/venv/bin/python -c "import json; print(' '.join(c['property_id'] for c in json.load(open('MANIFEST.json'))['checks']))")
for s in $SEEDS; do
  P=$(echo $s | cut -d- -f1)
  if [ "$CHECKS" = "all" ]; then LIST="$CLAIMED"; elif [ -n "$CHECKS" ]; then LIST="$CHECKS"; else
    REL=$(/venv/bin/python -c "import json; print(' '.join(json.load(open('seeded/$s/meta.json')).get('related', [])))")
    LIST="$P $REL"
  fi
  OUT=$(tools/mutant_run.sh seeded/$s/patch.diff $LIST 2>&1 | /venv/bin/python -c "
import sys, re
cur = None; res = []
for l in sys.stdin:
    m = re.match(r'^== (C\d\d) exit=(\d+)', l)
    if m:
        cur = [m.group(1), m.group(2), 0, 0]; res.append(cur); continue
    if cur and l.startswith('VIOLATION'):
        if '.bounded.' in l: cur[3] += 1
        else: cur[2] += 1
print(' '.join(f'== {p} exit={rc} [D:{d} B:{b}]' for p, rc, d, b in res))
")
  echo "$s: $OUT"
done
