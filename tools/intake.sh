#!/bin/sh
# tools/intake.sh <batch-tag>   -- validate every finished delivery /tmp/sw/<P>-<tag>-out, keep it as the next seeded/<P>-m<n>, remove the
# agent's worktree, and run the seed against its own property's check.  Prints one line per seed.
TAG="$1"; HERE="$(cd "$(dirname "$0")/.." && pwd)"; cd "$HERE"
NEW=""
for d in /tmp/sw/C*-$TAG-out; do
  [ -d "$d" ] || continue
  P=$(basename $d | cut -d- -f1)
  [ -f $d/patch.diff ] && [ -f $d/demo.py ] && [ -f $d/notes.md ] || continue
  n=$(ls seeded | grep "^$P-m" | sed 's/.*-m//' | sort -n | tail -1); id="$P-m$((n+1))"
  r=$(tools/validate_seed.sh $d $id $P 2>&1 | grep -E "KEPT|REJECTED|apply" | tail -1)
  echo "$r"
  case "$r" in *KEPT*) NEW="$NEW $id";; esac
  git -C /repo worktree remove --force /tmp/sw/$P-$TAG 2>/dev/null
  mv $d /tmp/sw/done-$P-$TAG-out
done
for s in $NEW; do echo $s; done | xargs -P 3 -I{} sh -c 'tools/seed_matrix.sh {} 2>&1 | grep -v "^WARNING"'
