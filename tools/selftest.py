#!/usr/bin/env python3
"""tools/selftest.py [ids...] -- seeded-mutant self-test of the contracts (DESIGN App. B catalogue, written by hand).

Each mutant is a textual replacement in one file of /repo; it is applied to a scratch worktree (outside /repo and
/verif), the named checks are run against it with PYVC_REPO, the worktree is removed.  A mutant that none of its named
checks reports (exit 1) is a hole in a contract and is printed as SURVIVED.  With --suite the pinned test suite is run on
the mutant first (a mutant the suite kills is reported as such and skipped).
These are self-test material, not the independently produced changes of seeded/.
"""
import json
import os
import subprocess
import sys
import tempfile

HERE = os.path.dirname(os.path.dirname(os.path.abspath(__file__)))
P = "openapi_python_client/"
T = P + "templates/"
PP = P + "parser/properties/"

MUTANTS = [
    ("b06", P + "utils.py", "    if value in RESERVED_WORDS or iskeyword(value):", "    if value in RESERVED_WORDS:", ["C09"]),
    ("b07", P + "utils.py", '        if not new_value.isidentifier() or value.startswith("_"):', "        if not new_value.isidentifier():", ["C09"]),
    ("b10", PP + "int.py", "        if isinstance(converted, int) and not isinstance(converted, bool):", "        if isinstance(converted, int):", ["C13"]),
    ("b12", PP + "date.py", "                isoparse(value).date()  # make sure it's a valid value", "                pass", ["C13"]),
    ("b13", PP + "__init__.py", "    default = existing.convert_value(parent.default) if parent is not None else None", "    default = None", ["C13", "C20"]),
    ("b14", PP + "merge_properties.py", "            required=current.required or override.required,", "            required=current.required and override.required,", ["C15"]),
    ("b15", PP + "merge_properties.py", "        return _merge_common_attributes(prop2, prop1, prop2)\n    else:\n        return None\n\n\ndef _merge_with_enum", "        return _merge_common_attributes(prop1, prop2)\n    else:\n        return None\n\n\ndef _merge_with_enum", ["C15"]),
    ("b16", PP + "merge_properties.py", "        if _values_are_subset(prop1, prop2):\n            values = prop1.values\n            class_info = prop1.class_info", "        if _values_are_subset(prop1, prop2):\n            values = prop2.values\n            class_info = prop2.class_info", ["C15"]),
    ("b20", T + "property_templates/const_property.py.jinja", "    raise ValueError(f", "    pass  # (f", ["C14"]),
    ("b21", T + "literal_enum.py.jinja", "    if value in {{ enum.get_class_name_snake_case() | upper }}_VALUES:\n        return", "    if True:\n        return", ["C14"]),
    ("b22", P + "cli.py", "            header_color = typer.colors.BRIGHT_RED\n            break", "            header_color = typer.colors.BRIGHT_RED\n        else:\n            error_level = ErrorLevel.WARNING", ["C06"]),
    ("b25", P + "parser/openapi.py", "                status_code = HTTPStatus(int(code))\n            except ValueError:", "                status_code = HTTPStatus(int(code))\n            except KeyError:", ["C06", "C04"]),
    ("b26", P + "parser/openapi.py", "                    for collection in collections:\n                        collection.parse_errors.append(endpoint)\n                    continue", "                    continue", ["C07"]),
    ("b27", P + "__init__.py", "        errors.extend(self.openapi.errors)\n", "", ["C07"]),
    ("b31", PP + "protocol.py", "        if no_optional or self.required:\n            return type_string", "        if no_optional:\n            return type_string", ["C11", "C10"]),
    ("b32", PP + "protocol.py", '        elif not self.required:\n            default = "UNSET"', '        elif True:\n            default = "UNSET"', ["C10", "C11", "C13"]),
    ("b33", T + "model.py.jinja", "if {{ property.python_name }} is not UNSET:\n    field_dict[", "if True:\n    field_dict[", ["C02", "C10"]),
    ("b34", T + "model.py.jinja", '    "{{ property.name }}": {{ property.python_name }},', '    "{{ property.python_name }}": {{ property.python_name }},', ["C02"]),
    ("b35", T + "property_templates/union_property.py.jinja", "    if data is None:\n        return data\n", "", ["C02", "C10"]),
    ("b37", T + "endpoint_macros.py.jinja", """{% set statement = 'headers["' +  parameter.name + '"]' + " = " + expression %}""", """{% set statement = 'headers["' +  parameter.python_name + '"]' + " = " + expression %}""", ["C03"]),
    ("b38", T + "endpoint_macros.py.jinja", "if {{ parameter.python_name }} is not UNSET:\n    cookies[", "if True:\n    cookies[", ["C03", "C10"]),
    ("b41", P + "parser/bodies.py", '        elif simplified_content_type == "application/octet-stream":\n            body_type = BodyType.CONTENT', '        elif simplified_content_type == "application/octet-stream":\n            body_type = BodyType.DATA', ["C03"]),
    ("b42", P + "parser/responses.py", '    if parsed_content_type.startswith("text/"):\n        return TEXT_SOURCE\n', "", ["C04"]),
    ("b43", T + "endpoint_module.py.jinja", "    if response.status_code == {{ response.status_code.value }}:", "    if response.status_code >= {{ response.status_code.value }}:", ["C04"]),
    ("b44", T + "endpoint_module.py.jinja", "        raise errors.UnexpectedStatus(response.status_code, response.content)", "        return None", ["C04"]),
    ("b46", T + "model.py.jinja", "{% for relative in model.relative_imports | sort %}", "{% for relative in model.relative_imports %}", ["C12"]),
    ("b48", P + "parser/openapi.py", "                if not config.generate_all_tags:\n                    tags = tags[:1]", "                tags = tags[:1]", ["C16"]),
    ("b49", P + "utils.py", "    content_type = config.content_type_overrides.get(content_type, content_type)\n", "", ["C16"]),
    ("b50", P + "parser/bodies.py", "                content_type=content_type,\n                prop=prop,", "                content_type=simplified_content_type,\n                prop=prop,", ["C16", "C03"]),
    ("b53", P + "schema/openapi_schema_pydantic/schema.py", "        if isinstance(self.type, str):\n            self.type = [self.type, DataType.NULL]\n        elif isinstance(self.type, list):", "        if isinstance(self.type, list):", ["C17"]),
    ("b54", PP + "__init__.py", "    if len(sub_data) == 1 and isinstance(sub_data[0], oai.Reference):", "    if len(data.allOf) == 1 and len(sub_data) == 1 and isinstance(sub_data[0], oai.Reference):", ["C17"]),
    ("b56", P + "__init__.py", "            if not self.config.overwrite:", "            if self.config.overwrite:", ["C19"]),
    ("b57", P + "__init__.py", "        shutil.rmtree(models_dir, ignore_errors=True)\n        models_dir.mkdir()", "        models_dir.mkdir(exist_ok=True)", ["C19"]),
    ("b59", PP + "schemas.py", "        required=data.required,\n        explode=data.explode,", "        explode=data.explode,", ["C20"]),
    ("b61", PP + "__init__.py", "    schemas.add_dependencies(ref_path=ref_path, roots=roots)\n    return prop, schemas", "    return prop, schemas", ["C20", "C08"]),
    ("b62", PP + "date.py", 'imports.update({"import datetime", "from typing import cast", "from dateutil.parser import isoparse"})', 'imports.update({"from typing import cast", "from dateutil.parser import isoparse"})', ["C01"]),
    ("b80", P + "parser/openapi.py", "modified_params = set(previously_modified_params) if previously_modified_params else set()", "modified_params = previously_modified_params or set()", ["C09"]),
    ("b81", P + "parser/openapi.py", "            if conflicting is None:\n                used_python_names[prop.python_name] = parameter\n                continue", "            if conflicting is None:\n                continue", ["C09"]),
    ("b82", PP + "enum_property.py", "if not isinstance(existing, EnumProperty) or values != existing.values:", "if not isinstance(existing, EnumProperty) and values != existing.values:", ["C09"]),
    ("b83", PP + "enum_property.py", 'output[f"VALUE_NEGATIVE_{-value}"] = value', 'output[f"VALUE_{-value}"] = value', ["C14"]),
    ("b84", P + "parser/bodies.py", '    if isinstance(body, oai.Reference):\n        return ParseError(detail="Circular $ref in request body", data=body)\n', "", ["C06"]),
    ("b85", PP + "__init__.py", "                next_round.append((name, data))\n                errors.append(schemas_or_err)\n                continue\n            schemas = schemas_or_err", "                errors.append(schemas_or_err)\n                continue\n            schemas = schemas_or_err", ["C07"]),
    ("b86", PP + "__init__.py", "                errors.append(schemas_or_err)\n                continue\n            schemas = schemas_or_err\n            still_making_progress = True", "                errors.append(schemas_or_err)\n                still_making_progress = True\n                continue\n            schemas = schemas_or_err\n            still_making_progress = True", ["C06"]),
    ("b87", PP + "__init__.py", "    final_model_errors.extend(latest_model_errors)\n", "", ["C07"]),
    ("b88", P + "parser/openapi.py", "            parameters_by_location[param.param_in].append(prop)", "            parameters_by_location[oai.ParameterLocation.QUERY].append(prop)", ["C03"]),
    ("b89", P + "parser/openapi.py", "        endpoint = deepcopy(endpoint)\n\n        unique_parameters", "        unique_parameters", ["C03"]),
    ("b90", P + "parser/responses.py", "            schema_data = media_type.media_type_schema\n            break", "            schema_data = media_type.media_type_schema", ["C04"]),
    ("b91", P + "parser/responses.py", '    else:\n        return (\n            ParseError(data=data, detail=f"Unsupported content_type {content}"),\n            schemas,\n        )', "    else:\n        schema_data = None", ["C04", "C07"]),
    ("b92", P + "parser/openapi.py", "        if len(result.bodies) > 0:\n            result.errors.extend(body_errors)", "        if len(result.bodies) > 0:\n            pass", ["C07"]),
    ("b93", P + "parser/openapi.py", "requires_security=bool(data.security),", "requires_security=data.security is not None,", ["C03"]),
    ("b95", PP + "model_property.py", "        if schema_additional:\n            return ANY_ADDITIONAL_PROPERTY, schemas\n        return None, schemas", "        if not schema_additional:\n            return ANY_ADDITIONAL_PROPERTY, schemas\n        return None, schemas", ["C02"]),
    ("b96", PP + "model_property.py", "    schemas = property_data.schemas\n\n    additional_properties", "    additional_properties", ["C08"]),
    ("b97", PP + "const.py", "        if isinstance(converted_default, PropertyError):\n            return converted_default\n        prop.default", "        prop.default", ["C13"]),
    ("b98", PP + "int.py", "        if isinstance(checked_default, PropertyError):\n            return checked_default\n\n        return cls(", "        return cls(", ["C13"]),
    ("b99", PP + "schemas.py", "    parameters = evolve(parameters, classes_by_reference={ref_path: param, **parameters.classes_by_reference})", "    parameters = evolve(parameters, classes_by_reference={**parameters.classes_by_reference})", ["C20"]),
    ("b70", T + "helpers.jinja", """r\"\"\" {{ content | replace('\"\"\"', '\\\\"\\\\"\\\\"') }} \"\"\"""", 'r""" {{ content }} """', ["C05"]),
    ("b71", PP + "string.py", "        return Value(python_code=repr(utils.remove_string_escapes(value)), raw_value=value)", "        return Value(python_code=f'\"{utils.remove_string_escapes(value)}\"', raw_value=value)", ["C13"]),
    ("b72", P + "parser/openapi.py", '            summary=utils.remove_string_escapes(data.summary) if data.summary else "",', '            summary=data.summary or "",', ["C05"]),
    # contracts of the seventh batch
    ("c01", P + "parser/openapi.py", "                    for collection in collections:\n                        collection.parse_errors.append(endpoint)\n                    continue",
     "                    continue", ["C07"]),
    ("c02", P + "parser/openapi.py", "                for collection in collections:\n                    collection.endpoints.append(endpoint)",
     "                if not endpoint.errors:\n                    for collection in collections:\n                        collection.endpoints.append(endpoint)", ["C07"]),
    ("c03", P + "parser/openapi.py", "                endpoint, schemas, parameters = Endpoint.from_data(\n                    data=operation,",
     "                endpoint, _schemas, parameters = Endpoint.from_data(\n                    data=operation,", ["C08"]),
    ("c04", PP + "model_property.py", "        if len({prop.python_name for prop in resulting.values()}) != len(resulting):",
     "        if len({prop.python_name for prop in properties.values()}) != len(properties):", ["C09"]),
    ("c05", PP + "model_property.py", "    if first.python_name == second.python_name:\n        return PropertyError(",
     "    if first.python_name == second.name:\n        return PropertyError(", ["C09"]),
    ("c06", P + "config.py", "            field_prefix=config_file.field_prefix,", "            field_prefix=config_file.field_prefix.lower(),", ["C16"]),
    ("c07", P + "config.py", "        if config_file.post_hooks is not None:", "        if config_file.post_hooks:", ["C16"]),
    # module / file name collisions (eighth batch)
    ("d01", PP + "model_property.py", "        if schemas.module_name_taken(class_info):", "        if False and schemas.module_name_taken(class_info):", ["C09"]),
    ("d02", PP + "schemas.py", "            if name != class_info.name and other is not None and other.module_name == class_info.module_name:",
     "            if name == class_info.name and other is not None and other.module_name == class_info.module_name:", ["C09"]),
    ("d03", PP + "schemas.py", "            if name != class_info.name and other is not None and other.module_name == class_info.module_name:\n                return True",
     "            if name != class_info.name and other is not None and other.module_name == class_info.module_name:\n                break", ["C09"]),
    ("d04", P + "parser/openapi.py", "                        for collection in collections\n                        for other in collection.endpoints\n                    ):",
     "                        for collection in collections[1:]\n                        for other in collection.endpoints\n                    ):", ["C07", "C09"]),
    ("d05", P + "parser/openapi.py", "                    module_name = utils.PythonIdentifier(endpoint.name, config.field_prefix)", "                    module_name = endpoint.name", ["C07", "C09"]),
    ("d06", PP + "enum_property.py", "        if schemas.module_name_taken(class_info):", "        if schemas.module_name_taken(class_info) and False:", ["C09"]),
    ("e01", P + "cli.py", "    if url and not path:\n        source = url", "    if url:\n        source = url", ["C06"]),
    ("e02", P + "cli.py", "        typer.secho(f\"Unknown encoding : {file_encoding}\", fg=typer.colors.RED)\n        raise typer.Exit(code=1) from err",
     "        typer.secho(f\"Unknown encoding : {file_encoding}\", fg=typer.colors.RED)", ["C06"]),
    ("e03", P + "__init__.py", "    if isinstance(project, GeneratorError):\n        return [project]\n    return project.build()",
     "    if isinstance(project, GeneratorError):\n        return []\n    return project.build()", ["C06"]),
    ("e04", P + "__init__.py", "    if isinstance(openapi, GeneratorError):\n        return openapi\n    return Project(",
     "    return Project(", ["C06"]),
    ("e05", P + "cli.py", "    handle_errors(errors, fail_on_warning)", "    handle_errors(errors)", ["C06"]),
    ("e06", P + "__init__.py", "        try:\n            yaml_bytes = source.read_bytes()\n        except OSError as err:", "        try:\n            yaml_bytes = source.read_bytes()\n        except FileNotFoundError as err:", ["C06"]),
    ("e08", PP + "list_property.py", "        items = list(data.prefixItems or [])", "        items = data.prefixItems or []", ["C20", "C12"]),
    ("e09", PP + "model_property.py", "            required_set.update(sub_prop.required or [])", "            pass", ["C15", "C10"]),
    ("e10", P + "parser/openapi.py", "            requires_security=bool(data.security),", "            requires_security=False,", ["C03"]),
    ("e11", T + "endpoint_macros.py.jinja", "{% if endpoint.requires_security %}", "{% if false %}", ["C03"]),
    ("f01", P + "parser/openapi.py", "        if parameters_from_path != [param.name for param in endpoint.path_parameters]:", "        if len(parameters_from_path) != len(endpoint.path_parameters):", ["C03"]),
    ("f02", P + "parser/openapi.py", "                key=lambda param: parameters_from_path.index(param.name),", "                key=lambda param: parameters_from_path.index(param.python_name),", ["C03"]),
    ("f03", P + "parser/openapi.py", "        endpoint = deepcopy(endpoint)\n        parameters_from_path", "        parameters_from_path", ["C03"]),
    ("d07", PP + "schemas.py", "        for name, existing in self.classes_by_name.items():\n            other =", "        for name, existing in list(self.classes_by_name.items())[1:]:\n            other =", ["C09"]),
]


def run(cmd, **kw):
    return subprocess.run(cmd, capture_output=True, text=True, **kw)


def main():
    args = [a for a in sys.argv[1:] if not a.startswith("--")]
    suite = "--suite" in sys.argv
    survived = []
    for mid, path, old, new, props in MUTANTS:
        if args and mid not in args:
            continue
        wt = tempfile.mkdtemp(prefix="pyvc-self-")
        repo = os.path.join(wt, "repo")
        try:
            r = run(["git", "-C", "/repo", "worktree", "add", "-q", "--detach", repo, "HEAD"])
            if r.returncode:
                print(mid, "worktree failed", r.stderr[:100])
                continue
            f = os.path.join(repo, path)
            s = open(f, encoding="utf-8").read()
            if old not in s:
                print(f"{mid}: pattern not found in {path} (source changed) -- skipped")
                continue
            open(f, "w", encoding="utf-8").write(s.replace(old, new, 1))
            if suite:
                t = run(["/venv/bin/python", "-m", "pytest", "-q", "-p", "no:cacheprovider", "--timeout=900", "--continue-on-collection-errors"], cwd=repo)
                line = t.stdout.strip().splitlines()[-1] if t.stdout.strip() else ""
                if " 403 passed" not in line:
                    print(f"{mid}: killed by the suite ({line}) -- skipped")
                    continue
            res = {}
            for p in props:
                c = run([os.path.join(HERE, "check"), p, "--tier", "quick"], env=dict(os.environ, PYVC_REPO=repo))
                res[p] = c.returncode
            verdict = "caught" if any(v == 1 for v in res.values()) else "SURVIVED"
            if verdict == "SURVIVED":
                survived.append(mid)
            print(f"{mid}: {verdict} {res}  [{path.split('/')[-1]}]")
            sys.stdout.flush()
        finally:
            run(["git", "-C", "/repo", "worktree", "remove", "--force", repo])
            subprocess.run(["rm", "-rf", wt])
    print("survived:", survived)


if __name__ == "__main__":
    main()
