#!/bin/sh
# tools/validate_seed.sh <src-dir with patch.diff demo.py notes.md> <seed-id> <property>
# Confirms in a scratch worktree of /repo HEAD: patch applies, pinned suite still 403 passed, demo fails with / passes without.
# On success copies into /verif/seeded/<seed-id>/ and writes meta.json (checks_detecting is filled in later).
SRC="$(readlink -f "$1")"; ID="$2"; PROP="$3"
HERE="$(cd "$(dirname "$0")/.." && pwd)"
WT="$(mktemp -d /tmp/pyvc-seed-XXXXXX)"
git -C /repo worktree add -q --detach "$WT/repo" HEAD || exit 3
cleanup() { git -C /repo worktree remove --force "$WT/repo" 2>/dev/null; rm -rf "$WT"; }
( cd "$WT/repo" && git apply "$SRC/patch.diff" ) || { echo "$ID: patch does not apply to HEAD"; cleanup; exit 2; }
PASSED=$(cd "$WT/repo" && /venv/bin/python -m pytest -q -p no:cacheprovider --timeout=900 --continue-on-collection-errors 2>&1 | tail -1)
N=$(echo "$PASSED" | sed -n 's/.* \([0-9]*\) passed.*/\1/p')
REPO_UNDER_TEST="$WT/repo" /venv/bin/python "$SRC/demo.py" > "$WT/with.out" 2>&1; RC_WITH=$?
REPO_UNDER_TEST=/repo /venv/bin/python "$SRC/demo.py" > "$WT/without.out" 2>&1; RC_WITHOUT=$?
echo "$ID: suite='$PASSED' demo_with=$RC_WITH demo_without=$RC_WITHOUT"
if [ "$N" = "403" ] && [ "$RC_WITH" != "0" ] && [ "$RC_WITHOUT" = "0" ]; then
  mkdir -p "$HERE/seeded/$ID"
  if [ "$SRC" != "$HERE/seeded/$ID" ]; then
    cp "$SRC/patch.diff" "$SRC/demo.py" "$HERE/seeded/$ID/"
    [ -f "$SRC/notes.md" ] && cp "$SRC/notes.md" "$HERE/seeded/$ID/"
  fi
  /venv/bin/python - "$HERE/seeded/$ID" "$PROP" "$PASSED" "$RC_WITH" "$RC_WITHOUT" <<'PY'
import json, sys, os
d, prop, passed, w, wo = sys.argv[1:]
notes = open(os.path.join(d, "notes.md")).read() if os.path.exists(os.path.join(d, "notes.md")) else ""
meta = {"property": prop, "source": "independent sub-agent given only the property text and a scratch worktree",
        "needs_to_manifest": notes[:1500],
        "confirmed": {"applies_to": "HEAD of /repo at validation time", "suite": passed.strip(),
                      "demo_exit_with_change": int(w), "demo_exit_without_change": int(wo),
                      "how": "tools/validate_seed.sh: scratch git worktree, git apply, pinned pytest command, demo.py with REPO_UNDER_TEST"},
        "checks_detecting": []}
if os.path.exists(os.path.join(d, "meta.json")):
    old = json.load(open(os.path.join(d, "meta.json")))
    for k in ("related", "checks_detecting", "checks_run"):
        if k in old:
            meta[k] = old[k]
json.dump(meta, open(os.path.join(d, "meta.json"), "w"), indent=1)
PY
  echo "$ID: KEPT"
else
  echo "$ID: REJECTED"; tail -5 "$WT/with.out"; tail -3 "$WT/without.out"
fi
cleanup
