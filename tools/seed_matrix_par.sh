#!/bin/sh
# tools/seed_matrix_par.sh [jobs]  -- tools/seed_matrix.sh for every seed, <jobs> seeds at a time (default 5); one line per seed.
HERE="$(cd "$(dirname "$0")/.." && pwd)"
cd "$HERE"
# build the overlay venv once, before the parallel workers would race for it
./check C20 >/dev/null 2>&1
ls seeded | xargs -P "${1:-5}" -I{} sh -c 'tools/seed_matrix.sh {} 2>&1 | grep -v "^WARNING"'
