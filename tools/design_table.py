#!/usr/bin/env python3
"""tools/design_table.py -- print the per-property numbers of DESIGN.md 0.3 from evidence/*.json"""
import glob, json, os
HERE = os.path.dirname(os.path.dirname(os.path.abspath(__file__)))
for f in sorted(glob.glob(os.path.join(HERE, "evidence", "C*.json"))):
    d = json.load(open(f))
    c = d["coverage"]
    print(d["property_id"], "obl", c.get("obligations"), "disch", c.get("discharged"), "known", len(c.get("failed_unrestricted", [])),
          "bnd", len(c.get("bounded_standins", [])), "fuc", len(c.get("functions_under_contract", [])), "wall", d.get("wall_s"))

# --update: rewrite the obl. / known / bnd columns of the table in DESIGN.md section 0.3 from the evidence files
import re, sys
if "--update" in sys.argv:
    path = os.path.join(HERE, "DESIGN.md")
    text = open(path, encoding="utf-8").read()
    for f in sorted(glob.glob(os.path.join(HERE, "evidence", "C*.json"))):
        d = json.load(open(f))
        c = d["coverage"]
        pid = d["property_id"]
        bnd = len({b.get("id") for b in c.get("bounded_standins", [])})
        pat = re.compile(r"^(\| %s \| [^|]* \|) *\d+ *\| *\d+ *\| *\d+ *\|" % pid, re.M)
        text, n = pat.subn(lambda m: f"{m.group(1)} {c.get('obligations')} | {len(c.get('failed_unrestricted', []))} | {bnd} |", text)
        if n != 1:
            print("row not found for", pid)
    open(path, "w", encoding="utf-8").write(text)
