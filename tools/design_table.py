#!/usr/bin/env python3
"""tools/design_table.py -- print the per-property numbers of DESIGN.md 0.3 from evidence/*.json"""
import glob, json, os
HERE = os.path.dirname(os.path.dirname(os.path.abspath(__file__)))
for f in sorted(glob.glob(os.path.join(HERE, "evidence", "C*.json"))):
    d = json.load(open(f))
    c = d["coverage"]
    print(d["property_id"], "obl", c.get("obligations"), "disch", c.get("discharged"), "known", len(c.get("failed_unrestricted", [])),
          "bnd", len(c.get("bounded_standins", [])), "fuc", len(c.get("functions_under_contract", [])), "wall", d.get("wall_s"))
