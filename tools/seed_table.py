#!/usr/bin/env python3
"""tools/seed_table.py <matrix-log> [...]  -- read seed_matrix.sh output ("<seed>: == C01 exit=1 == ..."), record it in
seeded/<seed>/meta.json (checks_run, checks_detecting) and print the markdown table used in DESIGN.md section 7.
Later logs override earlier ones per (seed, check)."""
import json
import os
import re
import sys

HERE = os.path.dirname(os.path.dirname(os.path.abspath(__file__)))
res = {}
kinds = {}
for log in sys.argv[1:]:
    for line in open(log, encoding="utf-8", errors="replace"):
        m = re.match(r"^(C\d\d-\w+): (.*)$", line.strip())
        if not m:
            continue
        seed = m.group(1)
        for p, rc, extra in re.findall(r"== (C\d\d) exit=(\d+)(?: \[D:(\d+ B:\d+)\])?", m.group(2)):
            res.setdefault(seed, {})[p] = int(rc)
            if extra:
                d, b = extra.replace("B:", "").split()
                kinds.setdefault(seed, {})[p] = (int(d), int(b))
rows = []
for seed in sorted(os.listdir(os.path.join(HERE, "seeded"))):
    mp = os.path.join(HERE, "seeded", seed, "meta.json")
    if not os.path.exists(mp):
        continue
    meta = json.load(open(mp))
    run = res.get(seed, meta.get("checks_run", {}))
    meta["checks_run"] = run
    meta["checks_detecting"] = sorted(p for p, rc in run.items() if rc == 1)
    if seed in kinds:
        meta["violated_obligations"] = {p: {"deductive": d, "bounded": b} for p, (d, b) in kinds[seed].items() if d or b}
    json.dump(meta, open(mp, "w"), indent=1)
    own = seed.split("-")[0]
    missed = sorted(p for p, rc in run.items() if rc == 0)
    other = sorted(p for p, rc in run.items() if rc not in (0, 1))
    what = ""
    npath = os.path.join(HERE, "seeded", seed, "notes.md")
    if os.path.exists(npath):
        for l in open(npath, encoding="utf-8"):
            l = l.strip()
            if l.lower().startswith("- change:") or l.lower().startswith("**change"):
                what = re.sub(r"[`*|]", "", l.split(":", 1)[1]).strip()[:110]
                break
    def tag(p):
        k = meta.get("violated_obligations", {}).get(p)
        if not k:
            return p
        return p + (" (d)" if k["deductive"] and not k["bounded"] else " (b)" if k["bounded"] and not k["deductive"] else " (d+b)")
    rows.append((seed, what, ", ".join(tag(p) for p in meta["checks_detecting"]) or "—",
                 ", ".join(missed) or "—", ", ".join(f"{p}={run[p]}" for p in other) or ""))
print("| seed | change (from the sub-agent's notes) | detected by (exit 1) | run, not affected (exit 0) |")
print("|---|---|---|---|")
for seed, what, det, missed, other in rows:
    print(f"| {seed} | {what} | {det} | {missed}{(' / ' + other) if other else ''} |")
