#!/bin/sh
# tools/mutant_run.sh <patch.diff> <prop> [<prop>...]   -- apply a patch to a scratch worktree of /repo (outside /repo and
# /verif), run the named checks against it (PYVC_REPO), print their exit codes, remove the worktree.  Never touches /repo.
# Note: evidence/ and replays/ are rewritten by these runs; re-run the checks on /repo before committing evidence.
PATCH="$(readlink -f "$1")"; shift
HERE="$(cd "$(dirname "$0")/.." && pwd)"
WT="$(mktemp -d /tmp/pyvc-mut-XXXXXX)"
git -C /repo worktree add -q --detach "$WT/repo" HEAD || exit 3
( cd "$WT/repo" && git apply "$PATCH" ) || { echo "patch does not apply"; git -C /repo worktree remove --force "$WT/repo"; rm -rf "$WT"; exit 3; }
for P in "$@"; do
  PYVC_OUT_DIR="$WT/out" PYVC_REPO="$WT/repo" "$HERE/check" "$P" --tier "${TIER:-quick}" > "$WT/$P.out" 2>&1
  rc=$?
  echo "== $P exit=$rc"
  grep -E "^(VIOLATION|UNDECIDED|ENGINE-ERROR|KNOWN-FINDING|\[)" "$WT/$P.out" | cut -c1-400
  [ "$rc" = 3 ] && tail -5 "$WT/$P.out"
done
git -C /repo worktree remove --force "$WT/repo"
rm -rf "$WT"
