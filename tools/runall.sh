#!/bin/sh
# tools/runall.sh [tier]  -- run every claimed check on /repo (rewrites evidence/); prints the summary line of each check that
# is not "violations=0 undecided=0 ... exit=0" and a final count.  Run before every commit that touches pyvc/, contracts/ or props/.
HERE="$(cd "$(dirname "$0")/.." && pwd)"; cd "$HERE"
TIER="${1:-quick}"; bad=0; n=0
for p in C01 C02 C03 C04 C05 C06 C07 C08 C09 C10 C11 C12 C13 C14 C15 C16 C17 C18 C19 C20; do
  line=$(./check $p --tier $TIER 2>&1 | tail -1); n=$((n+1))
  case "$line" in *"violations=0 undecided=0"*"exit=0") ;; *) bad=$((bad+1)); echo "$line";; esac
done
echo "runall: $n checks, $bad not clean"
[ "$bad" = 0 ]
