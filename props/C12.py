"""C12 - same document, same bytes: deterministic and order-independent."""
import time

from pyvc import core
from pyvc.core import Obligation, PROVED, REFUTED
import contracts.determinism as cd
from props.common import run_bounded


def run(rep, kf, tier, seed):
    cd.template_obligations(rep, "C12")
    cd.python_obligations(rep, "C12")
    # native bounded stand-in for (a): byte comparison under several hash seeds
    from pyvc import boundedchecks
    t0 = time.time()
    seeds = (0, 1, 2, 3) if tier == "quick" else tuple(range(12))
    why = boundedchecks.hashseed_violation(seeds)
    ob = Obligation(id="C12.bounded.hashseed", props=["C12"], unit="generate() on the schematic documents",
                    backend="cpython (fresh interpreters)", bounded=True,
                    formula=f"the schematic documents generate identical bytes under PYTHONHASHSEED in {list(seeds)}   [bounded]",
                    status=PROVED if why is None else REFUTED, detail=why or "identical trees", time_s=time.time() - t0)
    if why:
        ob.witness = {"kind": "call", "qualname": "pyvc.boundedchecks:hashseed_violation", "args": [], "kwargs": {},
                      "violates": "result is not None"}
    rep.add(ob)
    rep.bounded.append({"id": ob.id, "bound": f"4 schematic documents x {len(seeds)} hash seeds", "violations": 0 if why is None else 1})
    import contracts.registration as creg
    from pyvc import engine_b as _eb
    _eb.discharge(rep, kf, creg.all_contracts(), "C12", tier, seed)
    # order of paths: the multipart mark of a shared body model never depends on which operation is parsed last; composing a
    # model never edits the model it is composed of
    import contracts.responses_b as rb
    import contracts.process_properties as cpp
    import contracts.dispatch as cdp
    _eb.discharge(rep, kf, [rb.body_from_data_contract(), cpp.composition_contract(), cdp.inner_forwarding_contract("ListProperty"),
                            cdp.inner_forwarding_contract("UnionProperty")], "C12", tier, seed)
    run_bounded(rep, kf, "C12", ["schema_order", "name_collision", "path_order"], tier)
    rep.trusted.extend(["set-typedness is inferred from annotations of the record classes and local data flow (syntactic)",
                        "jinja2 `sort`/`dictsort` and python sorted() are deterministic"])
    rep.assumptions.extend([
        "C12(b) (permutation of components.schemas / paths) is NOT decided as stated: confluence of a whole-run fixpoint is "
        "outside per-function contracts; what is deductive are frame clauses that rule out the known ways order can leak (class "
        "registration never overwrites, composing never edits the parent, the multipart mark is sticky, parsing a schema does not "
        "change it); bounded stand-ins (all 24 orders of three 4-schema families, all 6 orders of three path families), labelled",
        "post-hooks (ruff) are external and out of scope",
    ])
    return {"level": "proof"}
