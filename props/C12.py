"""C12 - same document, same bytes: deterministic and order-independent."""
import time

from pyvc import core
from pyvc.core import Obligation, PROVED, REFUTED
import contracts.determinism as cd
from props.common import run_bounded


def run(rep, kf, tier, seed):
    cd.template_obligations(rep, "C12")
    cd.python_obligations(rep, "C12")
    # native bounded stand-in for (a): byte comparison under several hash seeds
    from pyvc import boundedchecks
    t0 = time.time()
    seeds = (0, 1, 2, 3) if tier == "quick" else tuple(range(12))
    why = boundedchecks.hashseed_violation(seeds)
    ob = Obligation(id="C12.bounded.hashseed", props=["C12"], unit="generate() on the schematic documents",
                    backend="cpython (fresh interpreters)", bounded=True,
                    formula=f"the schematic documents generate identical bytes under PYTHONHASHSEED in {list(seeds)}   [bounded]",
                    status=PROVED if why is None else REFUTED, detail=why or "identical trees", time_s=time.time() - t0)
    if why:
        ob.witness = {"kind": "call", "qualname": "pyvc.boundedchecks:hashseed_violation", "args": [], "kwargs": {},
                      "violates": "result is not None"}
    rep.add(ob)
    rep.bounded.append({"id": ob.id, "bound": f"4 schematic documents x {len(seeds)} hash seeds", "violations": 0 if why is None else 1})
    import contracts.registration as creg
    from pyvc import engine_b as _eb
    _eb.discharge(rep, kf, creg.all_contracts(), "C12", tier, seed)
    run_bounded(rep, kf, "C12", ["schema_order", "name_collision", "path_order"], tier)
    rep.trusted.extend(["set-typedness is inferred from annotations of the record classes and local data flow (syntactic)",
                        "jinja2 `sort`/`dictsort` and python sorted() are deterministic"])
    rep.assumptions.extend([
        "C12(b) (permutation of components.schemas / paths) is NOT decided as stated: confluence of a whole-run fixpoint is "
        "outside per-function contracts; a bounded stand-in (all 24 orders of two 4-schema families) is reported, labelled",
        "post-hooks (ruff) are external and out of scope",
    ])
    return {"level": "proof"}
