"""C01 - every generated client is a valid, importable Python package (conjunction of named necessary conditions)."""
from pyvc import core, engine_a, engine_b
from pyvc.strabs import Registry
import contracts.closure as cl
import contracts.dispatch as cd
import contracts.templates_a as ta
import contracts.utils as cu
from props.common import run_bounded


def run(rep, kf, tier, seed):
    # O2 identifiers (C09 triples tagged C01)
    reg = Registry()
    cu.build(reg)
    engine_a.discharge(rep, kf, reg, "C01", tier, seed)
    # O1 lexical well-formedness of docstrings for any content
    ta.safe_docstring_obligations(rep, "C01")
    ta.handwritten_docstring_obligation(rep, "C01")
    # O5 reference closure: roots reach every inner build; cascade (bounded)
    cd.discharge(rep, kf, "C01", tier, seed)
    import contracts.removal as crm
    import contracts.registration as creg
    engine_b.discharge(rep, kf, [creg.model_build_contract(), creg.import_filter_contract("relative"),
                                 creg.import_filter_contract("lazy")], "C01", tier, seed)
    import contracts.param_conflicts as pcf
    engine_b.discharge(rep, kf, [crm.propagate_contract(), pcf.conflicts_contract()], "C01", tier, seed)
    # O3/O4/O7: declaration layout, import closure, metadata, on the schematic family
    cl.import_closure_obligations(rep, "C01")
    run_bounded(rep, kf, "C01", ["removal_closure", "param_conflicts", "signature_order"], tier)
    rep.trusted.extend(["pyvc Engines A/B as for C05/C09/C08", "CPython's compiler/importer as the judge of importability on the "
                        "schematic family"])
    rep.assumptions.extend([
        "validity is decided as a conjunction of named necessary conditions (DESIGN 4/C01); 'imports successfully' for all "
        "documents is not a post-condition of any function: the import closure is exhaustive over the schematic family "
        "(every kind x flag x position the templates branch on), not over all documents",
        "O6 (one artefact per file) is a known gap: colliding module / endpoint file names are not detected by the generator "
        "(see C07 findings)",
    ])
    return {"level": "proof"}
