"""C20 - using a component by reference is equivalent to writing it inline (resolver contracts, Engine B)."""
from pyvc import core, engine_b, libmodels
import contracts.merge as cm
import contracts.refs as cr


def ref_tasks(prop, tier, seed, kf):
    tasks = []
    for kind in cm.ALL:
        def task(kind=kind):
            r = core.Report(prop, tier, seed)
            engine_b.discharge(r, kf, [cr.property_from_ref_contract(kind)], prop, tier, seed)
            return r
        tasks.append(task)

    def rest():
        r = core.Report(prop, tier, seed)
        import contracts.body_refs as cbr
        engine_b.discharge(r, kf, [cr.add_dependencies_contract(), cr.parameter_from_reference_contract(),
                                   cr.parameter_from_data_contract(), cr.update_parameters_contract(), cr.update_schemas_contract(),
                                   cr.parse_reference_path_contract(),
                                   __import__("contracts.add_parameters", fromlist=["x"]).add_parameters_contract(),
                                   __import__("contracts.responses_c", fromlist=["x"]).response_contract(),
                                   cbr.resolve_contract()]
                           + ([__import__("contracts.responses_b", fromlist=["x"]).add_responses_contract()] if prop == "C20" else []),
                           prop, tier, seed)
        return r
    tasks.append(rest)
    return tasks


def run(rep, kf, tier, seed):
    for r in core.run_parallel(ref_tasks("C20", tier, seed, kf)):
        rep.merge(r)
    cr.copy_superset_of_read_obligation(rep, "C20")
    import contracts.resolvers as rs
    rs.discharge(rep, kf, "C20", tier, seed)
    # a single-member wrapper around a reference IS that reference (one class per schema), whatever else the wrapper says
    cdp_ = __import__("contracts.dispatch", fromlist=["x"])
    cdp_.discharge(rep, kf, "C20", tier, seed)
    # a component that is used twice is parsed twice: parsing must leave the document's schema objects as they were
    import contracts.dispatch as cdp
    from pyvc import engine_b as _eb
    _eb.discharge(rep, kf, [cdp.inner_forwarding_contract("ListProperty"), cdp.inner_forwarding_contract("UnionProperty")], "C20", tier, seed)
    from props.common import run_bounded
    run_bounded(rep, kf, "C20", ["body_refs", "reference_strings", "response_refs", "path_order", "schema_order"], tier)
    rep.trusted.extend(["CPython semantics of the supported subset as encoded in pyvc.symexec",
                        "lazily materialised symbolic dictionaries (pyvc.absdata.LazyMap) for tables of unknown content",
                        "convert_value by summary (C13); parse_reference_path by summary inside _property_from_ref (own contract below)",
                        "urllib.parse.urlparse: scheme/path/fragment split (assumed, exercised natively)"]
                       + ["assumed library contract: " + t for t in libmodels.TRUSTED])
    rep.assumptions.append("byte-identity of whole endpoint modules for inline vs referenced components is not decided "
                           "(needs C12(b)); decided: the resolvers return the component object itself / the registered class")
    return {"level": "proof"}
