"""C02 - model decode/encode is a lossless JSON round trip (Engine F: generated from_dict/to_dict verified as code)."""
from openapi_python_client import utils

from pyvc import core, engine_b, fragments, libmodels, source
import contracts.models_f as mf

ASSUME = [
    "document quantifier: the proof is per schematic model (one per property kind x required/optional x default x "
    "nullable, both OpenAPI spellings); all documents follow by induction over the property tree and the frame argument "
    "for sibling properties (paper argument, see DESIGN 2.4)",
    "arrays whose items are unions or arrays are verified for lists of length <= 2 (bounded, labelled); arrays of "
    "scalars, enums, dates and models are verified for every length by the generic-element argument",
]


def template_hashes(rep):
    import hashlib, os
    root = os.path.join(core.REPO, "openapi_python_client", "templates")
    for dp, _, fs in os.walk(root):
        for f in sorted(fs):
            if f.endswith(".jinja"):
                p = os.path.join(dp, f)
                rep.fuc("template:" + os.path.relpath(p, root), os.path.relpath(p, core.REPO),
                        hashlib.sha256(open(p, "rb").read()).hexdigest()[:16])


def run(rep, kf, tier, seed):
    import contracts.templates_a as ta
    ta.union_fallthrough_obligation(rep, "C02")
    # the order in which a union's members are tried is the document's (first match wins in the generated decoder)
    import contracts.dispatch as _cd
    engine_b.discharge(rep, kf, [_cd.inner_forwarding_contract("UnionProperty")], "C02", tier, seed)
    tasks = []
    pkgs = []
    for version in ("3.1.0", "3.0.3"):
        doc, cases, extra = mf.document(version)
        pkg = fragments.generate_package(doc)
        pkgs.append(pkg)
        if pkg.errors:
            ob = core.Obligation(id=f"C02.F.schematic-document-{version}.accepted", props=["C02"], unit="generate",
                                 backend="native", status=core.UNDECIDED,
                                 detail="the schematic document produced diagnostics: " +
                                        "; ".join(f"{e.header} {e.detail}" for e in pkg.errors)[:400])
            rep.add(ob)
            continue
        comps = doc["components"]["schemas"]
        for name in [c[0] for c in cases] + extra:
            def task(name=name, pkg=pkg, comps=comps, version=version):
                r = core.Report("C02", tier, seed)
                c = mf.roundtrip_contract(pkg, comps, name, utils.snake_case(name), f"roundtrip[{version}]")
                engine_b.discharge(r, kf, [c], "C02", tier, seed)
                for o in r.obligations:
                    o.id = o.id.replace(".B.", ".F.")
                    o.unit = f"templates model.py.jinja + property_templates/*.jinja as rendered for schematic model {name} ({version})"
                    o.where = "openapi_python_client/templates/model.py.jinja"
                    o.backend = "z3 (fragment rendered by the real templates)"
                return r
            tasks.append(task)
    try:
        for r in core.run_parallel(tasks):
            rep.merge(r)
    finally:
        fragments.cleanup_all()
    # the units under contract are the templates (and the parser code that selects them), not the scratch package
    rep.functions = {k: v for k, v in rep.functions.items() if not k.startswith("pyvcfrag_")}
    template_hashes(rep)
    rep.trusted.extend(["CPython semantics of the supported subset as encoded in pyvc.symexec",
                        "the real generator run natively to render the schematic package (parser + jinja2)"]
                       + ["assumed library contract: " + t for t in libmodels.TRUSTED])
    rep.assumptions.extend(ASSUME)
    # parser side: what additionalProperties means, and the plumbing that carries property data into the model
    import contracts.model_plumbing as cmp_
    engine_b.discharge(rep, kf, [cmp_.additional_properties_contract(), cmp_.process_property_data_contract(),
                                 cmp_.process_model_contract()], "C02", tier, seed)
    from props.common import engine_b_crosscheck
    try:
        engine_b_crosscheck(rep, tier, convert_value=False, models=["3.1.0", "3.0.3"])
    except Exception as e:      # noqa: BLE001
        # the cross-check imports the schematic modules natively: if they do not even import on this tree, the obligations above
        # already say so (refuted with witnesses); the cross-check has nothing to compare and is skipped, not an engine error
        if any(o.status == core.REFUTED for o in rep.obligations):
            rep.extra["engine_b_crosscheck_skipped"] = f"{type(e).__name__}: {str(e)[:200]}"
        else:
            raise
    finally:
        from pyvc import fragments as _fr
        _fr.cleanup_all()
    return {"level": "proof"}
