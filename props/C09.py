"""C09 - derived names are valid identifiers and never merge silently."""
from pyvc.strabs import Registry
from pyvc import engine_a
import contracts.utils as cu

TRUSTED = [
    "CPython 3.12 semantics of the supported str/re primitives as encoded in pyvc.strabs (validated against CPython "
    "by the encoding cross-check on every run)",
    "Unicode tables of the running interpreter (class alphabet computed exhaustively over all 0x110000 code points)",
    "config.field_prefix satisfies SAFE_PREFIX (user configuration; the default 'field_' and the literal 'tag' do)",
]


def run(rep, kf, tier, seed):
    reg = Registry()
    cu.build(reg)
    engine_a.discharge(rep, kf, reg, "C09", tier, seed)
    from props.common import run_bounded
    run_bounded(rep, kf, "C09", ["param_conflicts", "model_properties", "enum_values"], tier)
    rep.trusted.extend(TRUSTED)
    return {"level": "proof"}
