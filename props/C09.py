"""C09 - derived names are valid identifiers and never merge silently."""
from pyvc.strabs import Registry
from pyvc import engine_a
import contracts.utils as cu

TRUSTED = [
    "CPython 3.12 semantics of the supported str/re primitives as encoded in pyvc.strabs (validated against CPython "
    "by the encoding cross-check on every run)",
    "Unicode tables of the running interpreter (class alphabet computed exhaustively over all 0x110000 code points)",
    "config.field_prefix satisfies SAFE_PREFIX (user configuration; the default 'field_' and the literal 'tag' do)",
]


def run(rep, kf, tier, seed):
    reg = Registry()
    cu.build(reg)
    engine_a.discharge(rep, kf, reg, "C09", tier, seed)
    # scope uniqueness of an operation's parameters: inductive contract of the conflict resolution (any number of parameters)
    from pyvc import engine_b
    import contracts.param_conflicts as pc
    import contracts.registration as creg
    import contracts.add_property as cap
    engine_b.discharge(rep, kf, [pc.conflicts_contract(), pc.iter_all_parameters_contract()] + creg.all_contracts()
                       + cap.all_contracts(), "C09", tier, seed)
    from props.common import run_bounded, discharge_parallel
    import contracts.enum_values as cev
    discharge_parallel(rep, kf, [cev.values_contract()], "C09", tier, seed)
    run_bounded(rep, kf, "C09", ["param_conflicts", "model_properties", "enum_values", "name_collision", "tag_filing"], tier)
    rep.trusted.extend(TRUSTED)
    rep.assumptions.extend([
        "_check_parameters_for_conflicts: Endpoint.iter_all_parameters yields every parameter exactly once as (location, "
        "property) -- proved by its own contract (generator run eagerly); assumed: parameter objects are pairwise distinct, "
        "the location enum formats as its value (StrEnum)",
        "_check_parameters_for_conflicts residual, not proved: a parameter already recorded in modified_params is renamed by "
        "the reserved-name branch in the last pass (needs a history invariant over earlier passes); covered only by the "
        "bounded stand-in param_conflicts",
    ])
    return {"level": "proof"}
