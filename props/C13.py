"""C13 - declared defaults become equal Python defaults, bad defaults are rejected."""
from pyvc import engine_b, libmodels
import contracts.convert_value as cv


def run(rep, kf, tier, seed):
    contracts = cv.build()
    engine_b.discharge(rep, kf, contracts, "C13", tier, seed)
    rep.trusted.extend(["CPython semantics of the supported statement/expression subset as encoded in pyvc.symexec"]
                       + ["assumed library contract: " + t for t in libmodels.TRUSTED])
    rep.assumptions.append("machine arithmetic: Python ints are unbounded (exact); floats are reals plus inf/-inf/nan; "
                           "float(int) overflows beyond the double range")
    return {"level": "proof"}
