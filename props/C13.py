"""C13 - declared defaults become equal Python defaults, bad defaults are rejected."""
from pyvc import engine_b, libmodels
import contracts.convert_value as cv


def run(rep, kf, tier, seed):
    from pyvc import core
    import contracts.merge as cm
    import contracts.typestrings as ts
    from props.C20 import ref_tasks
    contracts = cv.build()
    tasks = []
    for c in contracts:
        def t(c=c):
            r = core.Report("C13", tier, seed)
            engine_b.discharge(r, kf, [c], "C13", tier, seed)
            return r
        tasks.append(t)
    # the default declared next to a $ref is re-validated against the referenced class (all 16 kinds)
    tasks.extend(ref_tasks("C13", tier, seed, kf))
    # allOf merges: the later default wins and is re-validated against the merged kind (diagonal + enum/any pairs in the
    # quick tier, all 256 ordered pairs in the thorough tier)
    pairs = [(a, b) for a in cm.ALL for b in cm.ALL
             if tier == "thorough" or a == b or "Enum" in a + b or "Any" in a + b or {a, b} == {"IntProperty", "FloatProperty"}]
    for k1, k2 in pairs:
        def tm(k1=k1, k2=k2):
            r = core.Report("C13", tier, seed)
            engine_b.discharge(r, kf, [cm.merge_contract(k1, k2)], "C13", tier, seed)
            return r
        tasks.append(tm)
    # the declaration `name: type = python_code`
    for kind in cm.SIMPLE:
        def tt(kind=kind):
            r = core.Report("C13", tier, seed)
            engine_b.discharge(r, kf, [ts.to_string_contract(kind)], "C13", tier, seed)
            return r
        tasks.append(tt)
    for r in core.run_parallel(tasks):
        r.obligations = [o for o in r.obligations if "C13" in o.props or o.id.endswith("no-exception-escapes")]
        r.known_lines = [k for k in r.known_lines if k[0].startswith("C13")]
        rep.merge(r)
    from props.common import run_bounded
    run_bounded(rep, kf, "C13", ["enum_default"], tier)
    rep.trusted.extend(["CPython semantics of the supported statement/expression subset as encoded in pyvc.symexec"]
                       + ["assumed library contract: " + t for t in libmodels.TRUSTED])
    rep.assumptions.append("machine arithmetic: Python ints are unbounded (exact); floats are reals plus inf/-inf/nan; "
                           "float(int) overflows beyond the double range")
    import contracts.model_plumbing as cmp_
    from pyvc import engine_b as _eb2
    _eb2.discharge(rep, kf, [cmp_.const_build_contract()], "C13", tier, seed)
    import contracts.union_convert as cuc
    from pyvc import engine_b as _eb3
    _eb3.discharge(rep, kf, [cuc.convert_contract()], "C13", tier, seed)
    import contracts.scalar_build as csb
    from pyvc import engine_b as _eb
    _eb.discharge(rep, kf, csb.all_contracts(), "C13", tier, seed)
    # enum builders: the stored default is the conversion of this schema's own default
    import contracts.registration as creg
    _eb.discharge(rep, kf, [creg.enum_build_contract(), creg.literal_enum_build_contract()], "C13", tier, seed)
    import contracts.enum_convert as cec
    _eb.discharge(rep, kf, cec.all_contracts() + cec.const_contracts(), "C13", tier, seed)
    from props.common import engine_b_crosscheck
    engine_b_crosscheck(rep, tier, convert_value=True)
    return {"level": "proof"}
