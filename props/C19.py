"""C19 - generation writes only where told, never clobbers, converges on overwrite."""
from pyvc import core, engine_a, engine_b, libmodels
from pyvc.strabs import Registry
import contracts.project as cp
import contracts.utils as cu


def run(rep, kf, tier, seed):
    reg = Registry()
    cu.build(reg)
    engine_a.discharge(rep, kf, reg, "C19", tier, seed)
    tasks = []
    for m in ("NONE", "POETRY", "SETUP", "PDM"):
        def task(m=m):
            r = core.Report("C19", tier, seed)
            engine_b.discharge(r, kf, [cp.build_contract(m)], "C19", tier, seed)
            return r
        tasks.append(task)
    def init_task():
        r = core.Report("C19", tier, seed)
        engine_b.discharge(r, kf, [cp.init_contract(), cp.hooks_contract()], "C19", tier, seed)
        return r
    tasks.append(init_task)
    for r in core.run_parallel(tasks):
        rep.merge(r)
    rep.trusted.extend([
        "pyvc's encoding of the str/re primitives (Engine A) and of the Python subset (Engine B)",
        "pathlib.Path `/`, mkdir, write_text and shutil.rmtree are modelled as an effect trace (what they do on the real file "
        "system is assumed); jinja2 rendering returns text",
        "project_name_override, package_name_override and output_path are trusted configuration; what a post hook does inside "
        "its working directory is the user's business (the contract pins the working directory, the command text and check=True)",
    ])
    rep.assumptions.append("loops over models / enums / tags / endpoints are executed for 0-2 symbolic elements (the effect "
                           "protocol is uniform per element); convergence over histories follows from 'cleared before written' "
                           "+ 'every other file rewritten unconditionally' (paper step)")
    return {"level": "proof"}
