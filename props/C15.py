"""C15 - allOf composition is the conjunction of its members (merge_properties family, Engine B)."""
from pyvc import core, engine_b, libmodels
import contracts.merge as cm


def run(rep, kf, tier, seed):
    tasks = []
    for k1 in cm.ALL:
        for k2 in cm.ALL:
            def task(k1=k1, k2=k2):
                r = core.Report("C15", tier, seed)
                engine_b.discharge(r, kf, [cm.merge_contract(k1, k2), cm.symmetry_contract(k1, k2)], "C15", tier, seed)
                return r
            tasks.append(task)
    for r in core.run_parallel(tasks):
        rep.merge(r)
    import contracts.model_props as mp
    mp.discharge(rep, kf, "C15", tier, seed)
    # the allOf walk itself: one reference member + one inline member + own properties (fixed shape, symbolic required lists)
    import contracts.process_properties as cpp
    engine_b.discharge(rep, kf, [cpp.composition_contract()], "C15", tier, seed)
    from props.common import run_bounded
    run_bounded(rep, kf, "C15", ["model_properties", "schema_order"], tier)
    rep.trusted.extend(["CPython semantics of the supported subset as encoded in pyvc.symexec",
                        "convert_value of the result kind is used by summary (uninterpreted conversion; its own contract is C13)",
                        "class invariants assumed of the inputs: a stored default is the conversion of its raw value "
                        "against its own property; enum value sets are non-empty and of value_type"]
                       + ["assumed library contract: " + t for t in libmodels.TRUSTED])
    return {"level": "proof"}
