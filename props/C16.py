"""C16 - each configuration option has exactly its documented effect."""
from pyvc import core, engine_b
import contracts.collection as cc
import contracts.config_c as cfgc
import contracts.dispatch as cd


def run(rep, kf, tier, seed):
    cfgc.reads_frame_obligations(rep, "C16")
    import contracts.responses_b as rb
    engine_b.discharge(rep, kf, [cfgc.get_content_type_contract(), cfgc.class_from_string_contract(), cfgc.from_sources_contract(),
                                 cc.from_data_contract(),
                                 rb.body_from_data_contract(), rb.source_table_contract()],
                       "C16", tier, seed)
    import contracts.project as cproj
    import contracts.process_config as cpc
    import contracts.pipeline as cpl
    engine_b.discharge(rep, kf, [cproj.init_contract(), cpc.process_config_contract(), cproj.build_contract("NONE"),
                                 cproj.build_contract("POETRY")] + cpl.all_contracts(), "C16", tier, seed)
    rep.obligations = [o for o in rep.obligations if "C16" in o.props or o.id.endswith("no-exception-escapes")]
    cd.discharge(rep, kf, "C16", tier, seed)
    import contracts.closure as cl
    cl.import_closure_obligations(rep, "C16")
    rep.trusted.extend(["pyvc Engine B; email.message.Message.get_content_type as an uninterpreted function of the header text",
                        "the documented frame per option (contracts/config_c.DOCUMENTED) is written from the README"])
    rep.assumptions.extend([
        "two-run output relations ('no other effect on any document') are decided only through the reads frame: an option "
        "that is read in its documented unit only can have no effect elsewhere; the local effect contracts cover "
        "literal_enums, generate_all_tags, content_type_overrides and class_overrides",
        "literal_enums / docstrings_on_attributes 'change representation, not behaviour': both variants are proved against the "
        "same behavioural contracts under C14/C02; here they are imported natively for the schematic family",
    ])
    return {"level": "proof"}
