"""C16 - each configuration option has exactly its documented effect."""
from pyvc import core, engine_b
import contracts.collection as cc
import contracts.config_c as cfgc
import contracts.dispatch as cd


def run(rep, kf, tier, seed):
    cfgc.reads_frame_obligations(rep, "C16")
    import contracts.responses_b as rb
    engine_b.discharge(rep, kf, [cfgc.get_content_type_contract(), cfgc.class_from_string_contract(), cfgc.from_sources_contract(),
                                 cc.from_data_contract(),
                                 rb.body_from_data_contract(), rb.source_table_contract()],
                       "C16", tier, seed)
    import contracts.project as cproj
    import contracts.process_config as cpc
    import contracts.pipeline as cpl
    engine_b.discharge(rep, kf, [cproj.init_contract(), cpc.process_config_contract(), cproj.build_contract("NONE"),
                                 cproj.build_contract("POETRY")] + cpl.all_contracts(), "C16", tier, seed)
    rep.obligations = [o for o in rep.obligations if "C16" in o.props or o.id.endswith("no-exception-escapes")]
    overrides_package(rep, kf, tier, seed)
    from props.common import run_bounded
    run_bounded(rep, kf, "C16", ["tag_filing"], tier)
    cd.discharge(rep, kf, "C16", tier, seed)
    import contracts.closure as cl
    cl.import_closure_obligations(rep, "C16")
    rep.trusted.extend(["pyvc Engine B; email.message.Message.get_content_type as an uninterpreted function of the header text",
                        "the documented frame per option (contracts/config_c.DOCUMENTED) is written from the README"])
    rep.assumptions.extend([
        "two-run output relations ('no other effect on any document') are decided only through the reads frame: an option "
        "that is read in its documented unit only can have no effect elsewhere; the local effect contracts cover "
        "literal_enums, generate_all_tags, content_type_overrides and class_overrides",
        "literal_enums / docstrings_on_attributes 'change representation, not behaviour': both variants are proved against the "
        "same behavioural contracts under C14/C02; here they are imported natively for the schematic family",
    ])
    return {"level": "proof"}


def overrides_package(rep, kf, tier, seed):
    """content_type_overrides on the generated code: a request media type behaves as the one it maps to (json / form / multipart
    encoding of the body) and is still announced as itself; a response media type is decoded as the one it maps to"""
    from pyvc import fragments
    import contracts.endpoints_f as ef
    ov = {"application/x-things": "application/json", "text/x-form": "application/x-www-form-urlencoded",
          "multipart/x-upload": "multipart/form-data", "application/x-blob": "application/octet-stream"}
    body = {"$ref": "#/components/schemas/Body"}
    ok = {"200": {"description": ""}}
    ops = {}
    paths = {}
    for i, (declared, target) in enumerate(ov.items()):
        schema = {"type": "string", "format": "binary"} if target == "application/octet-stream" else body
        opid = f"body_over{i}"
        content = {declared: {"schema": schema}}
        paths[f"/o{i}"] = {"post": {"operationId": opid, "tags": ["b"], "requestBody": {"content": content}, "responses": ok}}
        ops[opid] = ("post", f"/o{i}", [], content)
    # responses: media types that are decodable by themselves but are mapped elsewhere (the mapping wins), and one that is not
    resp = {"200": {"description": "", "content": {"application/octet-stream": {"schema": body}}},
            "201": {"description": "", "content": {"application/x-things": {"schema": body}}},
            "202": {"description": "", "content": {"application/json": {"schema": {"type": "string"}}}}}
    ov_resp = dict(ov, **{"application/octet-stream": "application/json", "application/json": "text/plain"})
    paths["/r"] = {"get": {"operationId": "resp_over", "tags": ["r"], "responses": resp}}
    doc = {"openapi": "3.0.3", "info": {"title": "ov", "version": "1"}, "paths": paths,
           "components": {"schemas": {"Body": {"type": "object", "required": ["n"], "properties": {"n": {"type": "integer"}},
                                               "additionalProperties": False}}}}
    ov = dict(ov)
    ov_all = dict(ov_resp)
    del ov["application/x-blob"]          # (application/octet-stream is re-mapped for the response cases)
    ops.pop("body_over3", None)
    paths.pop("/o3", None)
    pkg = fragments.generate_package(doc, {"content_type_overrides": ov_all})
    try:
        if pkg.errors:
            rep.add(core.Obligation(id="C16.F.overrides-document.accepted", props=["C16"], unit="generate", backend="native",
                                    status=core.UNDECIDED, detail="diagnostics: " + "; ".join(f"{e.header} {e.detail}" for e in pkg.errors)[:300]))
            return
        for opid, (method, path, params, content) in ops.items():
            r = core.Report("C16", tier, seed)
            c = ef.get_kwargs_contract(pkg, doc, opid, method, path, params, content, "3.0.3", overrides=ov)
            for case in c.cases:
                case.props = ["C16"]
                case.pool = None
                for cl in case.clauses:
                    cl.props = ["C16"]
            engine_b.discharge(r, kf, [c], "C16", tier, seed)
            for o in r.obligations:
                o.id = o.id.replace(".B.", ".F.")
                o.backend = "z3 (fragment rendered by the real templates)"
                o.unit = f"endpoint templates as rendered with content_type_overrides for the request media type {list(content)[0]}"
                o.where = "openapi_python_client/templates/endpoint_module.py.jinja"
            rep.merge(r)
        for entry in ("_parse_response", "_build_response"):
            r = core.Report("C16", tier, seed)
            c = ef.parse_response_contract(pkg, doc, "resp_over", resp, "3.0.3", entry, overrides=ov_all)
            for case in c.cases:
                case.props = ["C16"]
                case.pool = None
                case.name = "content-type-overrides." + case.name
                for cl in case.clauses:
                    cl.props = ["C16"]
            engine_b.discharge(r, kf, [c], "C16", tier, seed)
            for o in r.obligations:
                o.id = o.id.replace(".B.", ".F.")
                o.backend = "z3 (fragment rendered by the real templates)"
                o.unit = "endpoint templates as rendered with content_type_overrides for response media types"
                o.where = "openapi_python_client/templates/endpoint_module.py.jinja"
            rep.merge(r)
    finally:
        pkg.cleanup()
