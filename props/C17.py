"""C17 - equivalent documents generate identical clients (normalisation lemmas + bounded document pairs)."""
from pyvc import core, engine_b
import contracts.dispatch as cd
import contracts.normalise as cn
from props.common import run_bounded


def run(rep, kf, tier, seed):
    engine_b.discharge(rep, kf, [cn.handle_nullable_contract(), cn.get_document_contract(), cn.load_contract()], "C17", tier, seed)
    cd.discharge(rep, kf, "C17", tier, seed)
    # wrapper == bare reference also needs: _property_from_ref with a parent that declares no default == with no parent
    from props.C20 import ref_tasks
    for r in core.run_parallel(ref_tasks("C17", tier, seed, kf)[:-1]):
        r.obligations = [o for o in r.obligations if "C17" in o.props or o.id.endswith("no-exception-escapes")]
        rep.merge(r)
    # a multipart body written as a wrapper around a reference marks the registered model exactly like the bare reference
    import contracts.responses_b as rb
    engine_b.discharge(rep, kf, [rb.body_from_data_contract()], "C17", tier, seed)
    run_bounded(rep, kf, "C17", ["equivalent_docs"], tier)
    rep.trusted.extend(["pyvc Engine B", "pydantic runs the model validators on every Schema (assumed)"])
    rep.assumptions.extend([
        "not decided: JSON == YAML and file == URL (behaviour of external parsers / HTTP content-type handling); 'enum "
        "containing null == explicit union' (which explicit spelling it equals cannot be taken from the statement)",
        "byte-identity of whole trees is only checked on 9 document pairs (bounded stand-in, labelled)",
    ])
    return {"level": "proof"}
