"""C03 - requests put every argument where the document says it goes (Engine F on generated endpoint modules).
C04 shares the schematic package; see props/C04.py."""
from pyvc import core, engine_b, fragments, libmodels
import contracts.endpoints_f as ef
from props.C02 import template_hashes

ASSUME = [
    "document quantifier: one schematic operation per (parameter location x kind) with a required and an optional "
    "parameter, one per body type, plus interaction operations (same wire name in three locations, path parameters "
    "declared out of placeholder order, path-item parameters overridden by the operation); all documents follow by the "
    "per-block frame argument (paper, DESIGN 2.4)",
    "httpx's own serialisation of params/data/files/json and cookie handling is not verified (assumed)",
    "coroutines are run to completion at `await` (no interleaving is modelled): async == sync is proved for the "
    "request/response data flow only",
]


def run_endpoints(rep, kf, tier, seed, prop):
    tasks = []
    for version in ("3.0.3", "3.1.0"):
        doc, ops, resp = ef.document(version)
        pkg = fragments.generate_package(doc)
        if pkg.errors:
            rep.add(core.Obligation(id=f"{prop}.F.schematic-document-{version}.accepted", props=[prop], unit="generate",
                                    backend="native", status=core.UNDECIDED,
                                    detail="the schematic document produced diagnostics: " +
                                           "; ".join(f"{e.header} {e.detail}" for e in pkg.errors)[:400]))
            continue
        contracts = []
        if prop in ("C03", "C10x"):
            for opid, (method, path, params, content) in ops.items():
                if prop == "C10x" and content is not None:
                    continue
                contracts.append((opid, ef.get_kwargs_contract(pkg, doc, opid, method, path, params, content, version)))
            for opid in ("op_mixed", "op_path", "body_json", "body_multi", "op_query_enum") if prop == "C03" else ():
                method, path, params, content = ops[opid]
                for entry in ("sync_detailed", "asyncio_detailed"):
                    contracts.append((opid, ef.entry_contract(pkg, doc, opid, method, path, params, content, version, entry)))
        else:
            for opid, rs in (("op_resp", resp), ("op_resp_none", {"200": {"description": ""}, "404": {"description": ""}})):
                for entry in ("_parse_response", "_build_response"):
                    contracts.append((opid, ef.parse_response_contract(pkg, doc, opid, rs, version, entry)))
        if prop == "C03":
            # an operation with security requirements demands an authenticated client (signature of the four entry points)
            import inspect
            for opid, tag, secured in (("op_resp_sec", "r", True), ("op_resp", "r", False)):
                ob = core.Obligation(id=f"C03.F.{opid}.client-annotation[{version}]", props=["C03"],
                                     unit=f"endpoint_module.py.jinja as rendered for {'a secured' if secured else 'an unsecured'} operation",
                                     where="openapi_python_client/templates/endpoint_module.py.jinja", backend="native (signature of the generated functions)",
                                     formula="sync_detailed / asyncio_detailed / sync / asyncio take `client: AuthenticatedClient` iff the operation "
                                             "declares security requirements (otherwise AuthenticatedClient or Client)")
                try:
                    mod = pkg.module(f"api.{tag}.{opid}")
                    bad = []
                    for entry in ("sync_detailed", "asyncio_detailed", "sync", "asyncio"):
                        fn = getattr(mod, entry, None)
                        if fn is None:
                            continue
                        ann = inspect.signature(fn).parameters["client"].annotation
                        text = ann if isinstance(ann, str) else getattr(ann, "__name__", str(ann))
                        only_auth = "AuthenticatedClient" in text and "Union" not in text and ", Client" not in text
                        if secured != only_auth:
                            bad.append(f"{entry}: client: {text}")
                    ob.status = core.REFUTED if bad else core.PROVED
                    ob.detail = "; ".join(bad) if bad else "four entry points checked"
                except Exception as e:      # noqa: BLE001
                    ob.status, ob.detail = core.UNDECIDED, f"{type(e).__name__}: {e}"
                rep.add(ob)
        if prop == "C03" and version == "3.0.3":
            import contracts.client_f as clf
            for c in clf.all_contracts(pkg):
                def ctask(c=c):
                    r = core.Report(prop, tier, seed)
                    engine_b.discharge(r, kf, [c], prop, tier, seed)
                    for o in r.obligations:
                        o.id = o.id.replace(".B.", ".F.")
                        o.backend = "z3 (fragment rendered by the real templates)"
                        o.unit = "templates client.py.jinja as rendered (client module of the schematic package)"
                        o.where = "openapi_python_client/templates/client.py.jinja"
                    return r
                tasks.append(ctask)
        for opid, c in contracts:
            def task(c=c, opid=opid, version=version):
                r = core.Report(prop, tier, seed)
                engine_b.discharge(r, kf, [c], "C10" if prop == "C10x" else prop, tier, seed)
                for o in r.obligations:
                    o.id = o.id.replace(".B.", ".F.")
                    o.backend = "z3 (fragment rendered by the real templates)"
                    o.unit = (f"templates endpoint_module.py.jinja + endpoint_macros.py.jinja + property_templates/* as "
                              f"rendered for schematic operation {opid} ({version})")
                    o.where = "openapi_python_client/templates/endpoint_module.py.jinja"
                return r
            tasks.append(task)
    try:
        for r in core.run_parallel(tasks):
            rep.merge(r)
    finally:
        fragments.cleanup_all()
    rep.functions = {k: v for k, v in rep.functions.items() if not k.startswith("pyvcfrag_")}
    template_hashes(rep)
    rep.trusted.extend(["CPython semantics of the supported subset as encoded in pyvc.symexec",
                        "the real generator run natively to render the schematic package (parser + jinja2)"]
                       + ["assumed library contract: " + t for t in libmodels.TRUSTED])
    rep.assumptions.extend(ASSUME)


def run(rep, kf, tier, seed):
    import contracts.config_c as cfgc
    import contracts.responses_b as rb
    import contracts.add_parameters as cap
    import contracts.endpoint_from_data as cefd
    engine_b.discharge(rep, kf, [cefd.from_data_contract()], "C03", tier, seed)
    # what is written to api/<tag>/<module>.py is the rendering of that very operation
    import contracts.project as cproj
    engine_b.discharge(rep, kf, [cproj.build_contract("NONE")], "C03", tier, seed)
    import contracts.sort_parameters as csp
    engine_b.discharge(rep, kf, [csp.sort_contract()], "C03", tier, seed)
    engine_b.discharge(rep, kf, [rb.body_from_data_contract(), cfgc.get_content_type_contract(), cap.add_parameters_contract()],
                       "C03", tier, seed)
    from props.common import run_bounded
    run_bounded(rep, kf, "C03", ["param_conflicts", "body_media", "tag_filing"], tier)
    run_endpoints(rep, kf, tier, seed, "C03")
    # the httpx boundary (assumed in the contracts above), probed natively for each body kind: bounded, labelled
    import time as _time
    from pyvc import boundedchecks as _bc
    from pyvc.core import Obligation as _Ob, PROVED as _P, REFUTED as _R
    for kind in ("binary", "json", "form", "multipart"):
        t0 = _time.time()
        why = _bc.httpx_accepts_violation(kind)
        e = kf.get("C03-K1-binary-body-asyncio") if kf is not None else None
        ob = _Ob(id=f"C03.bounded.httpx-accepts[{kind}]", props=["C03"], unit="generated sync_detailed / asyncio_detailed + httpx",
                 bounded=True, backend="cpython + httpx.MockTransport", time_s=_time.time() - t0,
                 formula=f"the real httpx sends the same request for a {kind} body in the blocking and the asyncio variant   [bounded]")
        if why is None:
            ob.status, ob.detail = _P, "same request in both variants"
        elif kind == "binary" and e is not None and "asyncio variant -> 'raised RuntimeError" in why:
            ob.status, ob.detail, ob.findings = _R, why, [e["id"]]
            if (e["id"], e["what"]) not in rep.known_lines:
                rep.known_lines.append((e["id"], e["what"]))
        else:
            ob.status, ob.detail = _R, why
            ob.witness = {"kind": "call", "qualname": "pyvc.boundedchecks:httpx_accepts_violation", "args": [], "kwargs": {"kind": kind},
                          "violates": "result is not None"}
        rep.add(ob)
        rep.bounded.append({"id": ob.id, "bound": "one probe operation per body kind", "violations": 0 if ob.status == _P or ob.findings else 1,
                            "known": ob.findings})
    return {"level": "proof"}
