"""C04 - responses are decoded per documented status and media type (Engine F)."""
from props.C03 import run_endpoints


def run(rep, kf, tier, seed):
    from pyvc import engine_b
    import contracts.responses_b as rb
    import contracts.responses_c as crc
    engine_b.discharge(rep, kf, [rb.source_table_contract(), rb.add_responses_contract(), crc.response_contract()], "C04", tier, seed)
    run_endpoints(rep, kf, tier, seed, "C04")
    from props.common import run_bounded
    run_bounded(rep, kf, "C04", ["response_type", "response_media", "response_refs"], tier)
    return {"level": "proof"}
