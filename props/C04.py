"""C04 - responses are decoded per documented status and media type (Engine F)."""
from props.C03 import run_endpoints


def run(rep, kf, tier, seed):
    from pyvc import engine_b
    import contracts.responses_b as rb
    import contracts.responses_c as crc
    import contracts.config_c as cfgc
    engine_b.discharge(rep, kf, [rb.source_table_contract(), rb.add_responses_contract(), crc.response_contract(),
                                 cfgc.get_content_type_contract()], "C04", tier, seed)
    run_endpoints(rep, kf, tier, seed, "C04")
    range_precedence(rep, kf, tier, seed)
    from props.common import run_bounded
    run_bounded(rep, kf, "C04", ["response_type", "response_media", "response_refs"], tier)
    return {"level": "proof"}


def range_precedence(rep, kf, tier, seed):
    """an explicit status code is decoded as documented even when a range key (2XX) for its class is listed before it -- whether
    or not the generator supports range keys (today: a warning names the key and it is not handled)"""
    from pyvc import core, engine_b, fragments
    import contracts.endpoints_f as ef
    doc = {"openapi": "3.0.3", "info": {"title": "rng", "version": "1"},
           "paths": {"/rng": {"get": {"operationId": "op_range", "tags": ["r"], "responses": {
               "2XX": {"description": "", "content": {"application/json": {"schema": {"$ref": "#/components/schemas/Thing"}}}},
               "201": {"description": "", "content": {"text/plain": {"schema": {"type": "string"}}}},
               "200": {"description": "", "content": {"application/json": {"schema": {"type": "integer"}}}},
               "404": {"description": ""}}}}},
           "components": {"schemas": {"Thing": {"type": "object", "required": ["n"], "properties": {"n": {"type": "integer"}},
                                                "additionalProperties": False}}}}
    pkg = fragments.generate_package(doc)
    try:
        explicit = {k: v for k, v in doc["paths"]["/rng"]["get"]["responses"].items() if k.isdigit()}
        try:
            pkg.module("api.r.op_range")
        except Exception as e:      # noqa: BLE001
            rep.add(core.Obligation(id="C04.F.op_range.importable", props=["C04"], unit="operation with a range key before explicit codes",
                                    backend="native import", status=core.UNDECIDED,
                                    detail=f"the operation was not generated: {type(e).__name__}: {e}; diagnostics: "
                                           f"{[(x.header, (x.detail or '')[:60]) for x in pkg.errors][:2]}"))
            return
        for entry in ("_parse_response", "_build_response"):
            r = core.Report("C04", tier, seed)
            c = ef.parse_response_contract(pkg, doc, "op_range", explicit, "3.0.3", entry, unspecified=[(200, 299)])
            for case in c.cases:
                case.name = "range-key-before-explicit-codes." + case.name
                case.pool = None
            engine_b.discharge(r, kf, [c], "C04", tier, seed)
            for o in r.obligations:
                o.id = o.id.replace(".B.", ".F.")
                o.backend = "z3 (fragment rendered by the real templates)"
                o.unit = "templates endpoint_module.py.jinja as rendered for an operation that lists 2XX before 201 / 200"
                o.where = "openapi_python_client/templates/endpoint_module.py.jinja"
            rep.merge(r)
    finally:
        pkg.cleanup()
