"""C04 - responses are decoded per documented status and media type (Engine F)."""
from props.C03 import run_endpoints


def run(rep, kf, tier, seed):
    run_endpoints(rep, kf, tier, seed, "C04")
    return {"level": "proof"}
