"""C10 - absent, null and present stay three distinct states."""
from openapi_python_client import utils

from pyvc import core, engine_b, fragments, libmodels
import contracts.models_f as mf
from props.C02 import template_hashes


def run_models(rep, kf, tier, seed, prop, config=None, tag=""):
    tasks = []
    for version in ("3.1.0", "3.0.3"):
        doc, cases, extra = mf.document(version)
        pkg = fragments.generate_package(doc, config)
        if pkg.errors:
            rep.add(core.Obligation(id=f"{prop}.F.schematic-document-{version}{tag}.accepted", props=[prop], unit="generate",
                                    backend="native", status=core.UNDECIDED,
                                    detail="; ".join(f"{e.header} {e.detail}" for e in pkg.errors)[:400]))
            continue
        comps = doc["components"]["schemas"]
        if prop == "C10":
            for ob in mf.signature_obligations(pkg, cases, version + tag, prop):
                rep.add(ob)
        for name, kind, req, dflt in cases:
            if prop == "C14" and not any(k in kind for k in ("enum", "const")):
                continue
            def task(name=name, kind=kind, req=req, dflt=dflt, pkg=pkg, comps=comps, version=version):
                r = core.Report(prop, tier, seed)
                c = mf.tristate_contract(pkg, comps, name, utils.snake_case(name), kind, req, dflt, f"tristate[{version}{tag}]",
                                         outside=(prop == "C14"))
                cs = [c]
                if prop == "C14":
                    cs.append(mf.roundtrip_contract(pkg, comps, name, utils.snake_case(name), f"roundtrip[{version}{tag}]"))
                    for case in cs[1].cases:
                        case.props = ["C14"]
                engine_b.discharge(r, kf, cs, prop, tier, seed)
                for o in r.obligations:
                    o.id = o.id.replace(".B.", ".F.")
                    o.backend = "z3 (fragment rendered by the real templates)"
                    o.unit = f"templates model.py.jinja + property_templates/*.jinja as rendered for schematic model {name} ({version}{tag})"
                    o.where = "openapi_python_client/templates/model.py.jinja"
                return r
            tasks.append(task)
    try:
        for r in core.run_parallel(tasks):
            rep.merge(r)
    finally:
        fragments.cleanup_all()
    rep.functions = {k: v for k, v in rep.functions.items() if not k.startswith("pyvcfrag_")}
    template_hashes(rep)


def run(rep, kf, tier, seed):
    run_models(rep, kf, tier, seed, "C10")
    from props.C03 import run_endpoints
    run_endpoints(rep, kf, tier, seed, "C10x")
    for o in rep.obligations:
        if o.id.startswith("C10x."):
            o.id = "C10." + o.id[5:]
    # nullability declared at ONE using site (a nullable wrapper around a reference) is not written into the shared component
    import contracts.refs as cr
    engine_b.discharge(rep, kf, [cr.property_from_ref_contract(k) for k in ("UnionProperty", "ModelProperty")], "C10", tier, seed)
    from props.common import run_bounded
    run_bounded(rep, kf, "C10", ["model_properties", "equivalent_docs"], tier)
    # parser side of "required": the allOf walk of _process_properties
    import contracts.process_properties as cpp
    from pyvc import engine_b as _eb
    _eb.discharge(rep, kf, [cpp.composition_contract()], "C10", tier, seed)
    rep.trusted.extend(["CPython semantics of the supported subset as encoded in pyvc.symexec"]
                       + ["assumed library contract: " + t for t in libmodels.TRUSTED])
    rep.assumptions.append("document quantifier by schematic models/operations + frame argument (paper, DESIGN 2.4)")
    return {"level": "proof"}
