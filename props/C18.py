"""C18 - document names cannot capture the generated code's own names (Engine F, one obligation set per template name)."""
from openapi_python_client import utils

from pyvc import core, engine_b, fragments, libmodels
import contracts.capture_f as cf
import contracts.endpoints_f as ef
import contracts.models_f as mf
from props.C02 import template_hashes

FINDING = "C18-K1-template-names-captured"


def run(rep, kf, tier, seed):
    names = cf.template_names()
    fragments.cleanup_all()
    doc = cf.capture_document(names)
    pkg = fragments.generate_package(doc)
    comps = doc["components"]["schemas"]
    known = set((kf.get(FINDING) or {}).get("names", []))
    rep.extra["template_names"] = len(names)
    if pkg.errors:
        # a name that makes the parser reject the model/operation is reported by a diagnostic: allowed by the property
        rep.extra["rejected_by_parser"] = [f"{e.header} {(e.detail or '')[:80]}" for e in pkg.errors][:20]
    locs = ("query", "header", "cookie", "path")
    tasks = []
    for i, n in enumerate(names):
        def task(i=i, n=n):
            r = core.Report("C18", tier, seed)
            cs = []
            for suffix in ("Req", "Opt", "Extra"):
                cname = f"Cap{i}{suffix}"
                modname = utils.snake_case(cname)
                try:
                    pkg.module(f"models.{modname}")
                except Exception as e:  # noqa
                    ob = core.Obligation(id=f"C18.F.{n}.model-{suffix}.importable", props=["C18", "C01"], unit=f"model with property {n!r}",
                                         backend="native import", status=core.REFUTED,
                                         detail=f"the generated module does not import: {type(e).__name__}: {e}")
                    r.add(ob)
                    continue
                c = mf.roundtrip_contract(pkg, comps, cname, modname, f"capture[{n}]")
                for case in c.cases:
                    case.props = ["C18"]
                    case.pool = None
                cs.append(c)
            shapes = [(loc, loc, None) for loc in locs] + [(tag, loc, content) for tag, loc, content in cf.EXTRA_SHAPES]
            for tag, loc, content in shapes:
                opid = f"cap{i}{tag}"
                path = f"/c{i}{tag}" + ("/{" + n + "}" if loc == "path" else "")
                if content is None:
                    params = [{"name": n, "in": loc, "required": loc == "path", "schema": {"type": "string"}},
                              {"name": "zz-other", "in": "query", "required": False, "schema": {"type": "integer"}}]
                    content = {"application/json": {"schema": {"$ref": "#/components/schemas/CapBody"}}}
                else:
                    params = [{"name": n, "in": loc, "required": False, "schema": {"type": "string"}}]
                try:
                    pkg.module(f"api.b.{opid}")
                except Exception as e:  # noqa
                    if not any(opid in (er.header or "") + (er.detail or "") or f"/c{i}{tag}" in (er.header or "") for er in pkg.errors):
                        ob = core.Obligation(id=f"C18.F.{n}.param-{tag}.importable", props=["C18", "C01"], unit=f"operation with {loc} parameter {n!r}",
                                             backend="native import", status=core.REFUTED,
                                             detail=f"the generated module does not import and no diagnostic names the operation: {type(e).__name__}: {e}")
                        r.add(ob)
                    continue
                c = ef.get_kwargs_contract(pkg, doc, opid, "post", path, params, content, f"capture[{n}]")
                for case in c.cases:
                    case.props = ["C18"]
                cs.append(c)
            engine_b.discharge(r, kf, cs, "C18", tier, seed)
            for o in r.obligations:
                o.id = o.id.replace(".B.", ".F.")
                o.unit = f"templates as rendered for a property / parameter spelled {n!r}"
                o.where = "openapi_python_client/templates/"
                o.backend = "z3 (fragment rendered by the real templates)"
                o._name = n
            return r, n
        tasks.append(task)
    # names the templates derive from a property's own name: a sibling spelled like one of them
    pats, base_doc = cf.derived_patterns()
    ddoc, dmodels = cf.derived_document(pats, base_doc)
    dpkg = fragments.generate_package(ddoc)
    dcomps = ddoc["components"]["schemas"]
    rep.extra["derived_name_patterns"] = sorted(pats)
    FINDING2 = "C18-K2-derived-names-captured"
    known_pats = set((kf.get(FINDING2) or {}).get("patterns", []))
    for cname, pat, kind, order in dmodels:
        def dtask(cname=cname, pat=pat, kind=kind, order=order):
            r = core.Report("C18", tier, seed)
            modname = utils.snake_case(cname)
            try:
                dpkg.module(f"models.{modname}")
            except Exception as e:  # noqa
                if not any(cname in (er.header or "") + (er.detail or "") for er in dpkg.errors):
                    r.add(core.Obligation(id=f"C18.F.derived[{pat}].{kind}.{order}.importable", props=["C18", "C01"],
                                          unit=f"model with a {kind} property and a sibling spelled {pat.format('base')!r}",
                                          backend="native import", status=core.REFUTED,
                                          detail=f"the generated module does not import: {type(e).__name__}: {e}"))
                return r, ("derived", pat)
            c = mf.roundtrip_contract(dpkg, dcomps, cname, modname, f"derived[{pat}].{kind}.{order}")
            for case in c.cases:
                case.props = ["C18"]
                case.pool = None
            engine_b.discharge(r, kf, [c], "C18", tier, seed)
            for o in r.obligations:
                o.id = o.id.replace(".B.", ".F.")
                o.unit = f"templates as rendered for a {kind} property next to a sibling spelled like the derived name {pat.format('<name>')!r}"
                o.where = "openapi_python_client/templates/"
                o.backend = "z3 (fragment rendered by the real templates)"
            return r, ("derived", pat)
        tasks.append(dtask)
    failing = {}
    failing_pats = {}
    try:
        results = core.run_parallel(tasks)
    finally:
        fragments.cleanup_all()
    for res in results:
        if isinstance(res, tuple):
            r, n = res
        else:
            r, n = res, None
        if isinstance(n, tuple) and n[0] == "derived":
            pat = n[1]
            und = [o for o in r.obligations if o.status == core.UNDECIDED]
            if und:
                # undecided (typically "use of <x> after a generically executed loop", which is what a capture by a loop
                # variable looks like): the real generated code decides, natively
                from pyvc import fragnative
                import re as _re
                m = _re.search(r"derived\[(.*?)\]\.(.*?)\.(after|before)\.", und[0].id)
                why = fragnative.derived_violation(m.group(1), m.group(2), m.group(3)) if m else "cannot identify the case"
                for o in und:
                    if why:
                        o.status = core.REFUTED
                        o.detail = f"native run: {why[:300]}   [engine: {o.detail[:120]}]"
                        o.witness = {"kind": "call", "qualname": "pyvc.fragnative:derived_violation", "args": [],
                                     "kwargs": {"pattern": m.group(1), "kind": m.group(2), "order": m.group(3)}, "violates": "result is not None"}
                    else:
                        o.status = core.PROVED
                        o.detail = f"decided natively on all small instances (bounded): {o.detail[:100]}"
            bad = [o for o in r.obligations if o.status == core.REFUTED]
            if bad:
                failing_pats.setdefault(pat, []).extend(o.id for o in bad)
                if pat in known_pats:
                    for o in bad:
                        o.findings = [FINDING2]
            rep.merge(r)
            continue
        bad = [o for o in r.obligations if o.status == core.REFUTED]
        und = [o for o in r.obligations if o.status == core.UNDECIDED]
        if und and n is not None:
            # the engine could not decide (typically: a template loop variable is used after the loop -- which is what a capture
            # by a loop variable looks like): the real generated code decides, natively
            from pyvc import fragnative
            why = fragnative.capture_violation(n)
            if why:
                for o in und:
                    o.status = core.REFUTED
                    o.detail = f"native run: {why[:300]}   [engine: {o.detail[:120]}]"
                    o.witness = {"kind": "call", "qualname": "pyvc.fragnative:capture_violation", "args": [], "kwargs": {"name": n},
                                 "violates": "result is not None"}
                bad = bad + und
        if bad and n is not None:
            failing[n] = [o.id for o in bad]
            if n in known:
                for o in bad:
                    o.findings = [FINDING]
        rep.merge(r)
    rep.extra["capturing_names"] = sorted(failing)
    e = kf.get(FINDING)
    if e is not None and any(n in known for n in failing):
        from pyvc.core import run_native
        if run_native(e["replay"]).get("violates"):
            rep.known_lines.append((FINDING, e["what"] + " Names: " + ", ".join(sorted(n for n in failing if n in known))))
        else:
            for o in rep.obligations:
                if o.findings == [FINDING]:
                    o.findings = []
    rep.extra["capturing_derived_patterns"] = sorted(failing_pats)
    e2 = kf.get(FINDING2)
    if e2 is not None and any(p in known_pats for p in failing_pats):
        from pyvc.core import run_native
        if run_native(e2["replay"]).get("violates"):
            rep.known_lines.append((FINDING2, e2["what"] + " Patterns: " + ", ".join(sorted(p for p in failing_pats if p in known_pats))))
        else:
            for o in rep.obligations:
                if o.findings == [FINDING2]:
                    o.findings = []
    rep.functions = {k: v for k, v in rep.functions.items() if not k.startswith("pyvcfrag_")}
    template_hashes(rep)
    rep.trusted.extend(["CPython semantics of the supported subset as encoded in pyvc.symexec"]
                       + ["assumed library contract: " + t for t in libmodels.TRUSTED])
    rep.assumptions.append("one property / parameter per name in a fixed neutral shape (date + integer neighbour; string "
                           "parameter + integer neighbour + JSON body): the frame argument extends it to other shapes")
    return {"level": "proof"}
