"""C08 - a bad piece of the document never damages unrelated output."""
from pyvc import core, engine_b, libmodels
import contracts.dispatch as cd
from props.C20 import ref_tasks
from props.common import run_bounded


def run(rep, kf, tier, seed):
    cd.discharge(rep, kf, "C08", tier, seed)
    for r in core.run_parallel(ref_tasks("C08", tier, seed, kf)):
        r.obligations = [o for o in r.obligations if "C08" in o.props or o.id.endswith("no-exception-escapes")]
        rep.merge(r)
    import contracts.removal as crm
    import contracts.body_refs as cbr
    import contracts.registration as creg
    engine_b.discharge(rep, kf, [creg.model_build_contract()], "C08", tier, seed)
    # inline enums register into a NEW Schemas: a piece rejected later is rolled back by dropping that object
    r = core.Report("C08", tier, seed)
    engine_b.discharge(r, kf, [creg.enum_build_contract(), creg.literal_enum_build_contract()], "C08", tier, seed)
    r.obligations = [o for o in r.obligations if "C08" in o.props or o.id.endswith("no-exception-escapes")]
    rep.merge(r)
    import contracts.model_plumbing as cmp_
    engine_b.discharge(rep, kf, cmp_.all_contracts(), "C08", tier, seed)
    import contracts.process_properties as cpp
    import contracts.add_parameters as cap
    engine_b.discharge(rep, kf, [cpp.composition_contract(), cap.add_parameters_contract()], "C08", tier, seed)
    import contracts.fixpoints as cfp
    import contracts.collection_ind as cci
    engine_b.discharge(rep, kf, [crm.propagate_contract(), cbr.resolve_contract(), cci.from_data_inductive_contract()]
                       + cfp.all_contracts(), "C08", tier, seed)
    run_bounded(rep, kf, "C08", ["removal_closure", "schema_order", "body_media", "param_override"], tier)
    rep.trusted.extend(["pyvc Engine B; LazyMap model of tables of unknown content"]
                       + ["assumed library contract: " + t for t in libmodels.TRUSTED])
    rep.assumptions.extend([
        "not decided: 'identical contents with and without the bad piece' (a relation between two runs)",
        "the removal cascade itself (_process_model_errors / _propogate_removal) is covered by a bounded stand-in only "
        "(3 models + 1 broken schema, all reference kinds incl. cycles)",
    ])
    return {"level": "proof"}
