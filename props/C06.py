"""C06 - every failure is a diagnostic: the generator never crashes or hangs; exit status; nothing written on rejection."""
from pyvc import core, engine_b, libmodels
import contracts.cli as cc
import contracts.convert_value as cv
from props.common import run_bounded


def run(rep, kf, tier, seed):
    tasks = []

    def t_cli():
        r = core.Report("C06", tier, seed)
        engine_b.discharge(r, kf, [cc.handle_errors_contract()], "C06", tier, seed)
        return r
    tasks.append(t_cli)

    def t_resp():
        import contracts.normalise as cn
        import contracts.responses_b as rb
        r = core.Report("C06", tier, seed)
        engine_b.discharge(r, kf, [rb.add_responses_contract(), cn.get_document_contract(), cn.load_contract()], "C06", tier, seed)
        return r
    tasks.append(t_resp)
    # O2/O3: the Any-typed default flows: no exception escapes any convert_value (shared with C13)
    for c in cv.build():
        def t(c=c):
            r = core.Report("C06", tier, seed)
            engine_b.discharge(r, kf, [c], "C06", tier, seed)
            r.obligations = [o for o in r.obligations if o.id.endswith("no-exception-escapes")]
            r.known_lines = [k for k in r.known_lines if k[0].startswith("C06")]
            return r
        tasks.append(t)
    for r in core.run_parallel(tasks):
        rep.merge(r)
    import contracts.removal as crm
    import contracts.body_refs as cbr
    import contracts.union_convert as cuc
    engine_b.discharge(rep, kf, [cuc.convert_contract()], "C06", tier, seed)
    import contracts.fixpoints as cfp
    import contracts.collection_ind as cci
    engine_b.discharge(rep, kf, [crm.propagate_contract(), cbr.resolve_contract(), cci.from_data_inductive_contract()]
                       + cfp.all_contracts(), "C06", tier, seed)
    # the top of the call chain: a rejected document never reaches Project.build; the command line reaches the stages unchanged;
    # contradictory source options / unknown codec end in exit status 1
    import contracts.pipeline as cpl
    import contracts.process_config as cpc
    engine_b.discharge(rep, kf, cpl.all_contracts() + [cpc.process_config_contract()], "C06", tier, seed)
    import contracts.enum_convert as cec
    engine_b.discharge(rep, kf, cec.all_contracts(), "C06", tier, seed)
    import contracts.closure as clo
    clo.macro_presence_obligations(rep, "C06")
    import contracts.containment as ct
    ct.discharge(rep, kf, "C06", tier, seed)
    run_bounded(rep, kf, "C06", ["body_refs", "removal_closure", "enum_values", "schema_order", "schema_accounting", "rejection_pool", "odd_documents"], tier)
    rep.trusted.extend(["CPython semantics of the supported subset as encoded in pyvc.symexec",
                        "typer.secho/echo/style and pprint.pformat have no effect on the program state"]
                       + ["assumed library contract: " + t for t in libmodels.TRUSTED])
    rep.assumptions.extend([
        "not decided: exceptions raised inside pydantic validation other than ValidationError, ruamel errors that are not "
        "YAMLError, RecursionError on deep nesting, UnicodeEncodeError in write_text, jinja2 UndefinedError",
        "termination of the schema/parameter fixpoints and of the removal cascade is covered by bounded stand-ins only",
    ])
    return {"level": "proof"}
