"""Shared pieces of the property drivers: the catalogue of bounded stand-ins."""
from pyvc import bounded

P = "openapi_python_client.parser."
BOUNDED = {
    "param_conflicts": dict(
        unit=P + "openapi:Endpoint._check_parameters_for_conflicts (+ add_parameters)", where="openapi_python_client/parser/openapi.py",
        statement="an accepted operation's parameters have pairwise distinct python names, none is `client`/`url`, each is an "
                  "identifier, and every declared (name, in) is present; otherwise a diagnostic",
        bound="1-3 parameters over 12 names x 4 locations (all ordered pairs; 3000 resp. 30000 sampled triples); 4 parameters "
              "over 15 names closed under the renaming operators x 2 locations (4000 resp. 120000 sampled quadruples + the "
              "regression family of the repaired defect)",
        known={"C09-K2-raw-name-delimiter":
               lambda case, why: "is not an identifier" in why and any(d in why.split("'")[1] for d in " .-")}),
    "model_properties": dict(
        unit=P + "properties.model_property:_process_properties / _add_if_no_conflict", where="openapi_python_client/parser/properties/model_property.py",
        statement="an accepted object schema has exactly the declared properties (incl. allOf members), pairwise distinct "
                  "attribute names, and a property is required iff some member requires it; otherwise a diagnostic",
        bound="1-2 properties over 7 names x required subsets; all ordered triples (thorough: quadruples) of 7 names whose "
              "snake-case forms and raw-name fallbacks collide; 5 allOf shapes x 4x5 names; re-declaration shape",
        known={"C15-K3-required-on-inherited-property-ignored":
               lambda case, why: case.get("variant") == "ref-parent-prop-required-by-child" and "required should be True" in why}),
    "enum_values": dict(
        unit=P + "properties.enum_property:EnumProperty.values_from_list / build", where="openapi_python_client/parser/properties/enum_property.py",
        statement="every listed value has exactly one member whose stored value is the (escaped) listed value and whose name is "
                  "an identifier, or a diagnostic is issued; no exception escapes",
        bound="1-3 values over 12 strings (all ordered pairs; triples over 7 resp. 12)",
        known={"C06-K1-duplicate-enum-member-valueerror": lambda case, why: "raised ValueError: Duplicate key" in why}),
    "removal_closure": dict(
        unit=P + "properties:_process_model_errors / _propogate_removal (+ dependency recording in every builder)",
        where="openapi_python_client/parser/properties/__init__.py",
        statement="with one broken schema: the parser terminates, schemas that do not depend on it survive, it is removed with a "
                  "diagnostic, and nothing that remains refers to a removed class",
        bound="3 models + 1 broken schema, each model with 0-2 references (property / array items / union member) to the "
              "others incl. cycles, also from inside nested inline objects (depth 1 and 2); 2500 resp. 20000 sampled graphs x 2 kinds "
              "of first-stage breakage; 400 resp. 4000 graphs x 2 kinds of second-stage breakage (a schema composed of itself / of "
              "something missing) x declared last / first"),
    "body_refs": dict(
        unit=P + "bodies:_resolve_reference", where="openapi_python_client/parser/bodies.py",
        statement="a chain of request body references ends in an inline body (then the endpoint has it) or is dangling/"
                  "circular (then no body and a diagnostic); the parser terminates",
        bound="all reference graphs over 3 named request bodies + a missing target, every start; the same graphs with "
              "component names that need percent-escapes in references"),
    "body_media": dict(
        unit=P + "bodies:body_from_data (+ Endpoint.from_data body accounting)", where="openapi_python_client/parser/bodies.py",
        statement="every request media type is handled by the generated function or named in a diagnostic; the operation is "
                  "generated iff some media type is usable",
        bound="1-3 distinct media types over 8 (usable / broken schema / unsupported), all orders"),
    "schema_order": dict(
        unit=P + "properties:_create_schemas / _process_models (fixpoints)", where="openapi_python_client/parser/properties/__init__.py",
        statement="for a valid document the generated classes and their properties do not depend on the order of "
                  "components.schemas (parents after children, forward references, single-reference wrappers)",
        bound="four families of 4 schemas (allOf parents, single-reference wrappers, references nested in unions / arrays, class names that differ only in case -- this one compared byte for byte), all 24 orders each"),
    "reference_strings": dict(
        unit=P + "properties.schemas:parse_reference_path", where="openapi_python_client/parser/properties/schemas.py",
        statement="a reference string is accepted only if it is empty or '#' + fragment; the urlparse fact assumed by the deductive "
                  "contract holds",
        bound="75 strings: 15 prefixes (relative file, absolute path, host, scheme, query, params, ...) x 5 fragments"),
    "response_type": dict(
        unit="openapi_python_client.parser.openapi:Endpoint.response_type", where="openapi_python_client/parser/openapi.py",
        statement="the return annotation of an operation admits the type of each documented response (it is that type, a Union "
                  "naming it, or Any)",
        bound="all sequences of 0-3 response types over 5 type strings incl. Any (156 cases)"),
    "schema_accounting": dict(
        unit=P + "properties:_create_schemas / _process_models (component accounting)", where="openapi_python_client/parser/properties/__init__.py",
        statement="every object / enumeration component is a generated class or is named by a diagnostic, whatever the order "
                  "and whichever components are broken, forward-referencing or colliding",
        bound="ordered selections of 3 (all 504) and 4 (1500 sampled resp. all 3024) of 9 component kinds: good, forward alias, "
              "target, broken enum, two objects with one class name, allOf child, dependant of the broken enum, enum"),
    "name_collision": dict(
        unit=P + "properties.enum_property:EnumProperty.build / model_property:ModelProperty.build (class name conflicts)",
        where="openapi_python_client/parser/properties/enum_property.py",
        statement="two document items whose derived class names coincide are either the same enum (same values in the same "
                  "order) or a diagnostic is issued; never one silently replacing the other",
        bound="two schemas (inline enum/inline enum over 5 value lists, model/inline enum, model/model), both orders; nested "
              "inline object under a property name that adds nothing to the class name (4 names x 2 containers)"),
    "enum_default": dict(
        unit=P + "properties: convert_value of EnumProperty / LiteralEnumProperty / ConstProperty / UnionProperty (+ templates)",
        where="openapi_python_client/parser/properties/enum_property.py",
        statement="a listed / matching value offered as default becomes the attribute default and omitting the argument encodes "
                  "exactly it; any other value is rejected with a diagnostic and never emitted",
        bound="47 schemas: string/int enums (both styles) x listed and unlisted defaults, consts, unions",
        known={"C13-K7-union-default-coerced-by-first-member": lambda case, why: case.get("kind") == "union" and "declared default" in why,
               "C13-K8-enum-default-with-quote-rejected": lambda case, why: case.get("kind") == "str-enum" and "rejected" in why and '"' in str(case.get("default"))}),
    "response_media": dict(
        unit=P + "responses:response_from_data", where="openapi_python_client/parser/responses.py",
        statement="a response is decoded by its first decodable media type AND typed by the schema of that same media type (no "
                  "schema: Any); a response none of whose media types can be decoded is dropped with a warning",
        bound="1-3 distinct media types over 8 (json / +json / xml / text / octet-stream / pdf, with and without schema), all orders"),
    "response_refs": dict(
        unit="openapi_python_client.parser.openapi:Endpoint._add_responses (+ response_from_data on references)",
        where="openapi_python_client/parser/openapi.py",
        statement="each documented status is handled under its own code or named in a warning, also when several statuses refer "
                  "to one response component",
        bound="1-3 of 4 status keys referring to one (or two) response components, inline 200 first or last (29 cases)"),
    "rejection_pool": dict(
        unit="openapi_python_client.parser.openapi:GeneratorData.from_dict (rejection path incl. the rendering of pydantic's errors)",
        where="openapi_python_client/parser/openapi.py",
        statement="a structurally invalid document yields a GeneratorError (or is accepted after coercion); no exception escapes",
        bound="34 invalid documents (errors located under mapping keys, list indices, the root; wrong versions; non-mappings)"),
    "param_override": dict(
        unit="openapi_python_client.parser.openapi:Endpoint.add_parameters (path-item parameters)",
        where="openapi_python_client/parser/openapi.py",
        statement="a path-item parameter the operation overrides (same name and location) is ignored whatever it looks like: the "
                  "operation is generated with its own parameter; a bad one that is not overridden drops the operation with a diagnostic",
        bound="3 locations x 3 kinds of bad path-item parameter x overridden or not"),
    "path_order": dict(
        unit="generate(): operations that share a body model / an inline enum class / a response component / a component parameter",
        where="openapi_python_client/parser/bodies.py",
        statement="reordering the entries of `paths` changes no generated file (documents that generate without diagnostics)",
        bound="4 families of 3 path items, all 6 orders each"),
    "shared_bad_component": dict(
        unit="openapi_python_client.parser.properties.schemas:parameter_from_reference / EndpointCollection.from_data (diagnostic objects)",
        where="openapi_python_client/parser/openapi.py",
        statement="when several operations use one rejected / missing component (parameter, response, request body), each of them is "
                  "generated or named by a diagnostic of its own (a shared diagnostic object is renamed by the last user)",
        bound="4 kinds of bad component x 2-3 operations"),
    "tag_filing": dict(
        unit="openapi_python_client.parser.openapi:EndpointCollection.from_data (tags, generate_all_tags, module names within a tag)",
        where="openapi_python_client/parser/openapi.py",
        statement="an operation is filed under its FIRST tag (all of its tags with generate_all_tags), or is named by a diagnostic; no "
                  "tag holds two operations with one module name",
        bound="2 operations x 7 tag lists each x 3 pairs of operation ids x generate_all_tags on/off (294 cases)"),
    "odd_documents": dict(
        unit="openapi_python_client.generate (parser and templates) on loadable documents with unusual but legal content",
        where="openapi_python_client/__init__.py",
        statement="generate() returns its diagnostics -- it does not raise -- for documents with non-string examples, defaults of "
                  "other (also unhashable) types, empty / numeric-looking names, self-references, deep nesting, media types with "
                  "parameters, missing optional parts, long / unclosed path placeholders with converter suffixes (30 s each: no hang)",
        bound="11 documents"),
    "signature_order": dict(
        unit="generate() + CPython's compiler on every generated module", where="openapi_python_client/templates/endpoint_macros.py.jinja",
        statement="an accepted operation with two path parameters and a required + an optional query parameter, each with or "
                  "without a schema default, is generated into modules that compile",
        bound="16 documents (every subset of the four parameters carrying a default)",
        known={"C01-K1-path-default-before-plain-path-parameter":
               lambda case, why: "does not compile" in why and case["path_defaults"] == [True, False]}),
    "equivalent_docs": dict(
        unit="generate() on pairs of documents that say the same thing in different notation", where="openapi_python_client/",
        statement="3.0 nullable vs 3.1 type list / null member, single-member allOf/oneOf/anyOf wrapper vs bare $ref, JSON vs "
                  "YAML, path-item parameter vs the same parameter on each operation: byte-identical trees; a default next "
                  "to a wrapped reference is kept",
        bound="16 document pairs",
        known={"C10-K1-nullable-lost-next-to-type-and-single-allof":
               lambda case, why: case == "nullable-typed-allof-ref" and "differ" in why}),
}


def run_bounded(rep, kf, prop, names, tier):
    for n in names:
        d = BOUNDED[n]
        bounded.run(rep, prop, n, d["unit"], d["where"], d["statement"], d["bound"], tier, known=d.get("known"), kf=kf)


def discharge_parallel(rep, kf, contracts, prop, tier, seed):
    """engine_b.discharge with one worker per case (independent obligations; used for the slower inductive contracts)"""
    from pyvc import core, engine_b
    from pyvc.engine_b import FnContract
    tasks = []
    for c in contracts:
        for case in c.cases:
            if prop not in (case.props or [prop]):
                continue
            def task(c=c, case=case):
                r = core.Report(prop, tier, seed)
                engine_b.discharge(r, kf, [FnContract(c.qualname, [case])], prop, tier, seed)
                return r
            tasks.append(task)
    for r in core.run_parallel(tasks):
        rep.merge(r)


def engine_b_crosscheck(rep, tier, convert_value=True, models=None):
    """CPython cross-check of Engine B on concrete inputs (pyvc.crosscheck_b); disagreements make the run exit 3"""
    from pyvc import crosscheck_b as X
    from pyvc.engine_b import JSON_POOL
    parts = []
    if convert_value:
        parts.append(("convert_value of the ten scalar kinds on the JSON pool", X.convert_value_crosscheck(JSON_POOL)))
    for version in (models or []):
        parts.append((f"generated from_dict/to_dict of the schematic models ({version}) on concrete wire objects",
                      X.models_crosscheck(version, 3 if tier == "quick" else 40)))
    info = rep.extra.setdefault("engine_b_crosscheck", [])
    for what, s in parts:
        rep.crosscheck["samples"] += s["runs"]
        bad = s["disagreements"] + s["false_facts"]
        rep.crosscheck["disagreements"] += bad
        if bad and "first" not in rep.crosscheck:
            rep.crosscheck["first"] = {"unit": what, "triple": "engine-b", "input": "", "got": s.get("first") or s.get("first_false_fact")}
        info.append({"what": what, **{k: v for k, v in s.items() if k not in ("all",)}})
