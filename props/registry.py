"""Which properties are claimed (with level text) and which are not (with the reason). Source of MANIFEST.json."""

CLAIMED = {
    "C09": {
        "engines": ["A"],
        "level": "proof",
        "technique": "contract-based deductive verification: Hoare triples over regular languages on the real utils.py "
                     "functions, discharged by exact automata inclusion over a Unicode class alphabet",
        "text": "Every triple {pre} f {post} on sanitize/split_words/fix_reserved_words/snake_case/pascal_case/"
                "PythonIdentifier/ClassName is decided for all strings of all lengths over all of Unicode; callers use "
                "only callee triples. Two input classes fail on the pinned tree and are known findings; the obligations "
                "are proved with exactly those classes excluded.",
        "note": "Trusted: pyvc's encoding of the str/re primitives (cross-checked against CPython on every run), the "
                "running interpreter's Unicode tables, field_prefix in SAFE_PREFIX. Scope-uniqueness obligations "
                "(attribute/parameter/class/enum-member collisions) are not yet under contract.",
    },
}

_NOT_BUILT = "not built yet in this round (planned per DESIGN.md section 7); no claim is made"
NOT_APPLICABLE = {f"C{i:02d}": _NOT_BUILT for i in range(1, 21) if f"C{i:02d}" not in CLAIMED}
