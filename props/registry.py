"""Which properties are claimed (with level text) and which are not (with the reason). Source of MANIFEST.json."""

CLAIMED = {
    "C09": {
        "engines": ["A"],
        "level": "proof",
        "technique": "contract-based deductive verification: Hoare triples over regular languages on the real utils.py "
                     "functions, discharged by exact automata inclusion over a Unicode class alphabet",
        "text": "Every triple {pre} f {post} on sanitize/split_words/fix_reserved_words/snake_case/pascal_case/"
                "PythonIdentifier/ClassName is decided for all strings of all lengths over all of Unicode; callers use "
                "only callee triples. Two input classes fail on the pinned tree and are known findings; the obligations "
                "are proved with exactly those classes excluded.",
        "note": "Trusted: pyvc's encoding of the str/re primitives (cross-checked against CPython on every run), the "
                "running interpreter's Unicode tables, field_prefix in SAFE_PREFIX. Scope-uniqueness obligations "
                "(attribute/parameter/class/enum-member collisions) are not yet under contract.",
    },
    "C13": {
        "engines": ["B"],
        "level": "proof",
        "technique": "contract-based deductive verification: ast->z3 symbolic execution of the real convert_value "
                     "bodies against per-kind contracts P1-P5, one validity query per path and clause",
        "text": "For every property kind with a scalar default, every feasible path of the real convert_value is "
                "explored for a fully symbolic JSON value and each contract clause (accept => equivalent typed code, "
                "reject => diagnostic, no exception escapes, None stays None, Value passes through) is proved valid "
                "on every path. Three input classes fail on the pinned tree and are known findings; two further "
                "defects were repaired by fix: commits.",
        "note": "Trusted: pyvc's encoding of the Python subset; assumed contracts of float()/int()/str()/repr()/"
                "isoparse/UUID as uninterpreted functions (listed in the evidence). Floats are reals plus inf/nan. "
                "Default routing through build/_property_from_ref/_merge_common_attributes: see level of C15/C20.",
    },
    "C02": {
        "engines": ["F", "B"],
        "level": "proof",
        "technique": "contract-based deductive verification of generated code: from_dict/to_dict rendered by the real "
                     "templates for schematic models, symbolically executed (ast->z3) against the round-trip contract",
        "text": "For each schematic model (every property kind x required/optional x default x nullable, typed/untyped/"
                "no additionalProperties, allOf composition; OpenAPI 3.0 and 3.1 spellings) the generated from_dict and "
                "to_dict are executed symbolically on a fully symbolic schema-valid JSON object; to_dict(from_dict(src)) "
                "== src, plain-JSON output, unmutated input and exception freedom are proved on every path; arrays and "
                "additional properties of any size by a generic-element argument.",
        "note": "Trusted: the symbolic semantics of the Python subset, assumed bijections isoparse/isoformat and "
                "UUID/str on canonical forms, Enum lookup; the step from schematic models to all documents is an "
                "induction over the property tree plus the frame argument (paper, DESIGN 2.4).",
    },
    "C03": {
        "engines": ["F", "B"], "level": "proof",
        "technique": "contract-based deductive verification of generated code: _get_kwargs and the four entry points "
                     "rendered by the real templates for schematic operations, symbolically executed (ast->z3) against "
                     "the request contract derived from the document",
        "text": "For every schematic operation (each parameter location x kind, required and optional; same wire name in "
                "three locations; path parameters out of placeholder order; path-item vs operation parameters; each body "
                "type incl. several media types) the generated _get_kwargs is proved, for all argument values, to return "
                "exactly the documented request; sync_detailed/asyncio_detailed are proved to send exactly one such "
                "request through the right httpx client.",
        "note": "Trusted: the symbolic semantics of the Python subset (pyvc.symexec), assumed library contracts listed in the evidence, the native run of the generator that renders the schematic package; the step from schematic documents to all documents is the induction/frame argument of DESIGN 2.4 (paper). httpx's own serialisation is assumed. Parser-side obligations (add_parameters, sort_parameters, "
                "body_from_data) are listed separately in the evidence when built."
    },
    "C04": {
        "engines": ["F", "B"], "level": "proof",
        "technique": "contract-based deductive verification of generated code: _parse_response/_build_response rendered "
                     "by the real templates, symbolically executed against the per-status decoding contract",
        "text": "For a schematic operation documenting JSON model/list/scalar/union, +json, text, octet-stream, empty and "
                "$ref'd responses the generated _parse_response and _build_response are proved, for every status code, "
                "body and raise_on_unexpected_status setting, to decode a documented status per its media type and to "
                "return None / raise UnexpectedStatus for an undocumented one. One known finding (status codes outside "
                "http.HTTPStatus).",
        "note": "Trusted: the symbolic semantics of the Python subset (pyvc.symexec), assumed library contracts listed in the evidence, the native run of the generator that renders the schematic package; the step from schematic documents to all documents is the induction/frame argument of DESIGN 2.4 (paper). httpx.Response.json()/text/content are symbolic inputs."
    },
    "C10": {
        "engines": ["F", "B"], "level": "proof",
        "technique": "contract-based deductive verification of generated code: from_dict on absent/null/present inputs, "
                     "constructor signatures and _get_kwargs for unset arguments, per schematic kind",
        "text": "For every schematic model the decoder is proved to map an absent optional key to UNSET, an absent "
                "required key to KeyError, null to None exactly for nullable schemas and a present value to a non-UNSET "
                "value; constructor defaults are read from the generated classes; unset optional parameters are proved "
                "not to be sent (shared with C03).",
        "note": "Trusted: the symbolic semantics of the Python subset (pyvc.symexec), assumed library contracts listed in the evidence, the native run of the generator that renders the schematic package; the step from schematic documents to all documents is the induction/frame argument of DESIGN 2.4 (paper). Type-string builders (parser side) are not yet under contract."
    },
    "C14": {
        "engines": ["F", "B"], "level": "proof",
        "technique": "contract-based deductive verification of generated code: enum / literal-enum / const decoders and "
                     "encoders rendered by the real templates under both enum styles",
        "text": "For schematic string/int/inline/nullable enums and consts, under Enum classes and literal_enums, the "
                "round trip of every listed value and the rejection of every unlisted string are proved for the "
                "generated from_dict/to_dict. One known finding (nullable enums pass unlisted values through).",
        "note": "Trusted: the symbolic semantics of the Python subset (pyvc.symexec), assumed library contracts listed in the evidence, the native run of the generator that renders the schematic package; the step from schematic documents to all documents is the induction/frame argument of DESIGN 2.4 (paper). Member naming and duplicate detection in values_from_list are parser-side obligations."
    },
    "C15": {
        "engines": ["B"], "level": "proof",
        "technique": "contract-based deductive verification: ast->z3 symbolic execution of the real merge_properties "
                     "family for all 256 ordered pairs of property kinds against the `narrowest` contract",
        "text": "merge_properties and its helpers are executed symbolically for every ordered pair of the 16 property "
                "classes with fully symbolic attributes; kind = narrowest-or-diagnostic, required = or, later default "
                "wins and is re-validated against the result kind/value set, later description/example win, arguments "
                "not mutated, and order independence of diagnostic/kind/required are proved per path. Two known "
                "findings; one defect repaired by a fix: commit. _process_properties / _process_models are covered by "
                "bounded stand-ins (labelled).",
        "note": "Trusted: the symbolic semantics of the Python subset; convert_value used by summary (C13); class "
                "invariants assumed of the inputs (stored defaults are conversions of their raw value; enum value sets "
                "non-empty and of value_type). Bounded stand-ins are not counted as proved.",
    },
    "C20": {
        "engines": ["B"], "level": "proof",
        "technique": "contract-based deductive verification: ast->z3 symbolic execution of the reference resolvers over "
                     "lazily materialised symbolic tables",
        "text": "_property_from_ref (for each of the 16 registered kinds), Schemas.add_dependencies and "
                "parameter_from_reference are proved against contracts: the registered object itself is reused (single "
                "class), the sibling default is re-validated, dependencies are recorded in a table-owned set, failures "
                "touch nothing; copy >= read for component parameters; request-body reference chains by a bounded stand-in.",
        "note": "Trusted: the symbolic semantics of the Python subset, LazyMap model of dicts of unknown content, "
                "urlparse. Byte-identity of endpoint modules (inline vs referenced) is not decided (needs C12(b)).",
    },
    "C06": {
        "engines": ["B"], "level": "proof",
        "technique": "contract-based deductive verification: exit-status contract of cli.handle_errors by an inductive "
                     "loop invariant, exception freedom of every convert_value path, rejection path of "
                     "GeneratorData.from_dict, syntactic raise containment",
        "text": "handle_errors is proved (for any number of diagnostics, by invariant) to exit 1 iff an ERROR-level "
                "diagnostic exists or fail_on_warning with a non-empty list; every path of every scalar convert_value "
                "is proved exception-free for any JSON value; a document that fails validation is proved to yield one "
                "error diagnostic for any JSON value; every raise statement is checked for containment (one known "
                "finding pinned by the suite). Termination and cascade behaviour: bounded stand-ins.",
        "note": "Not decided: exceptions inside pydantic/ruamel/jinja2, RecursionError, encoding errors, 'nothing "
                "written on rejection' (effect contract, see C19). Bounded stand-ins are not counted as proved.",
    },
    "C05": {
        "engines": ["A", "C", "B"], "level": "proof",
        "technique": "contract-based deductive verification: regular-language contracts on remove_string_escapes and on "
                     "the safe_docstring macro (jinja AST executed over languages), language inclusion per (document "
                     "slot, lexical context), forwarding contract of property_from_data (ast->z3)",
        "text": "Proved for all strings: what remove_string_escapes guarantees; that the safe_docstring macro of the "
                "real templates emits exactly one well-formed docstring token for ANY content; for every (slot, "
                "context) pair the rendering reaches, that the slot's language is included in what may stand in that "
                "context (three known findings are excluded classes); that every builder receives the escaped name on "
                "every dispatch path (361 schema shapes). One defect (code execution through docstrings) repaired.",
        "note": "The set of contexts each slot reaches is measured on the rendering of a slot document (4 config "
                "variants) with CPython's tokenizer as judge; the slot->language table is part of the contract (names "
                "discharged by the forwarding contract). repr() assumed to produce valid literals. README excluded.",
    },
    "C18": {
        "engines": ["F", "B"], "level": "proof",
        "technique": "contract-based deductive verification of generated code: the C02/C03 contracts re-proved on "
                     "fragments rendered for a property / parameter spelled like each identifier of the generated code",
        "text": "The set T of identifiers the real templates emit is computed on each run (about 230 names incl. "
                "keywords); for each name a schematic model (required and optional) and operations (query, header, "
                "path, cookie) are generated and the round-trip resp. documented-request contracts are proved "
                "symbolically. Eleven names capture on the pinned tree (one known finding listing them); any other "
                "failing name is a violation.",
        "note": "Trusted as for C02/C03. One neutral shape per name; other shapes by the frame argument (paper).",
    },
    "C01": {
        "engines": ["A", "B", "C", "F"], "level": "proof",
        "technique": "contract-based deductive verification of named necessary conditions: identifier triples (automata), "
                     "docstring macro contract, roots-forwarding contracts (ast->z3), exhaustive import closure over the "
                     "schematic family",
        "text": "Validity is decided as a conjunction: every derived name is an identifier (C09 triples, all strings); "
                "the docstring macro emits one well-formed token for any content; every dispatch path and every inner "
                "build forwards roots so that dependants of failed schemas are removable (361 shapes + list/union "
                "builders); every module of every schematic package (all kinds x flags x positions, 4 metadata "
                "flavours, both enum styles) compiles and imports and pyproject.toml parses. Removal cascade and "
                "parameter conflicts: bounded stand-ins.",
        "note": "'imports successfully' for all documents is not a post-condition of a function; the import closure is "
                "exhaustive over the schematic family only. O6 (file-name collisions) is a known gap.",
    },
    "C07": {
        "engines": ["B"], "level": "proof",
        "technique": "contract-based deductive verification: per-operation accounting contract of "
                     "EndpointCollection.from_data and _get_errors (ast->z3 with capturing summaries); bounded stand-ins "
                     "for media types, enum members, model properties, parameters, class-name collisions",
        "text": "EndpointCollection.from_data is proved, for two generic operations with every outcome of every step and "
                "every tag shape, to put each operation either as an endpoint or as a ParseError naming METHOD and path "
                "into every selected collection (539 paths); _get_errors returns all three sources. The remaining "
                "accounting obligations are bounded stand-ins (labelled).",
        "note": "Loops over paths/methods are covered by the two-operation inductive case with an append-only frame "
                "(paper step). Bounded stand-ins are not counted as proved. Known gap: file-name collisions.",
    },
    "C08": {
        "engines": ["B"], "level": "proof",
        "technique": "contract-based deductive verification: failure-frame and dependency-recording contracts of "
                     "_property_from_ref / add_dependencies, roots-forwarding contracts of property_from_data and the "
                     "list/union builders (ast->z3); removal cascade by bounded stand-in",
        "text": "On every error return the Schemas argument is returned untouched; on success the dependency is recorded "
                "in a table-owned set; every builder that can contain references receives the caller's roots on every "
                "dispatch path. The cascade over recorded dependencies (3 models + 1 broken schema, all reference kinds "
                "incl. cycles) is a bounded stand-in. One defect (union members not recorded) repaired.",
        "note": "'identical contents with and without the bad piece' (two-run relation) is not decided.",
    },
    "C11": {
        "engines": ["B"], "level": "proof",
        "technique": "contract-based deductive verification of the type-string builders (ast->z3); mypy on schematic "
                     "packages as labelled bounded stand-in",
        "text": "get_type_string / to_string of the ten scalar kinds are proved to produce `Union[Unset, T]` exactly for "
                "optional properties and the right declaration default; the union builder is proved to ask every member "
                "for the same json/multipart form. 'Passes mypy' is only checked on schematic packages (bounded).",
        "note": "mypy acceptance is an external judgement, never counted as proved; list/model/enum type strings are not "
                "under contract yet. One defect (cookies dict) repaired.",
    },
    "C12": {
        "engines": ["C", "B"], "level": "proof",
        "technique": "contract-based verification of order-insensitivity at every set-iteration site (jinja + python AST "
                     "obligations); hash-seed and schema-order comparisons as labelled bounded stand-ins",
        "text": "(a) every template loop / filter chain over a set-typed attribute and every python join/list over a "
                "set-typed value is shown to sort first (one defect repaired); bounded: identical bytes under several "
                "PYTHONHASHSEED values. (b) permutation of components.schemas is NOT decided as stated; bounded "
                "stand-in: all 24 orders of two 4-schema families.",
        "note": "Set-typedness is inferred from annotations; C12(b) is outside per-function contracts (confluence of a "
                "whole-run fixpoint).",
    },
    "C16": {
        "engines": ["B", "C"], "level": "proof",
        "technique": "contract-based deductive verification: reads frame per Config field over python and jinja ASTs, "
                     "local effect contracts (get_content_type, Class.from_string, enum style, generate_all_tags) by "
                     "ast->z3",
        "text": "Every read site of every option lies in its documented unit (frame); content_type_overrides is proved "
                "to be consulted on the document's own string before classification; class_overrides is applied iff the "
                "derived name is a key; literal_enums selects the enum builder on all 361 dispatch shapes; "
                "generate_all_tags places the same Endpoint under each tag.",
        "note": "Two-run output relations are decided only through the reads frame. The documented frame table is part "
                "of the contract (written from the README).",
    },
    "C17": {
        "engines": ["B"], "level": "proof",
        "technique": "contract-based deductive verification of the normalisation lemmas (handle_nullable, single-"
                     "reference passthrough, loader selection of _get_document) by ast->z3; document pairs as bounded "
                     "stand-in",
        "text": "handle_nullable is proved over all schema shapes to add a null alternative in the 3.1 spelling and to "
                "keep everything else; single-member wrappers are proved to resolve as the reference with the wrapper "
                "as parent; a URL source is proved to select its loader by the bare media type. Byte identity of trees: "
                "9 document pairs (bounded).",
        "note": "JSON == YAML (external parsers) and 'enum with null == explicit union' are not decided.",
    },
    "C19": {
        "engines": ["A", "B"], "level": "proof",
        "technique": "contract-based deductive verification: path-component triples on the naming functions (automata, "
                     "all strings) and an effect contract of Project.build executed symbolically (ast->z3) with the file "
                     "system as an effect trace",
        "text": "kebab_case / PythonIdentifier / ClassName results are proved to be safe path components for all strings; "
                "Project.build and its helpers are proved, for every metadata flavour, to touch nothing when the "
                "directory exists without overwrite, to write only allowed forms under the project/package directory, and "
                "to clear models/ and api/ before creating anything in them.",
        "note": "Path/shutil operations are modelled as an effect trace; overrides, output_path and post-hooks are trusted "
                "configuration; loops over models/tags run for 0-2 symbolic elements.",
    },
}

_NOT_BUILT = "not built yet in this round (planned per DESIGN.md section 7); no claim is made"
NOT_APPLICABLE = {f"C{i:02d}": _NOT_BUILT for i in range(1, 21) if f"C{i:02d}" not in CLAIMED}


# ---- additions of the second half of the build round (inductive contracts, cross-checks) ------------------------------------
_INDUCTIVE = ("inductive loop invariants (for/while, nested, with variants and ghost state) discharged as verification "
              "conditions by z3")
_ADD = {
    "C09": {
        "engines": ["A", "B"],
        "technique": "contract-based deductive verification: Hoare triples over regular languages on the real utils.py functions "
                     "(exact automata inclusion over a Unicode class alphabet); scope uniqueness by ast->z3 symbolic execution "
                     "with " + _INDUCTIVE,
        "text+": " Scope uniqueness for inputs of any size: Endpoint._check_parameters_for_conflicts (fixpoint discipline, "
                 "pairwise distinct non-reserved names in a pass that renamed nothing, strictly growing recursion argument), "
                 "EnumProperty.values_from_list (one member per listed value, positions never share a member name), class "
                 "registration in Model/Enum/LiteralEnumProperty.build (never overwrites a table entry).",
        "note": "Trusted: pyvc's encoding of the str/re primitives and of the Python subset (both cross-checked against CPython), "
                "the running interpreter's Unicode tables, field_prefix in SAFE_PREFIX. Model attributes: the closure "
                "_process_properties._add_if_no_conflict (taken from the real AST on every run) and _resolve_naming_conflict are "
                "under contract for a property table of any size (a stored property never shares its python name with another "
                "entry); the walk of _process_properties around it is covered by a bounded stand-in. Not proved: one stated "
                "residual of the parameter contract (a recorded parameter renamed by the reserved-name branch in the last pass).",
    },
    "C01": {"text+": " Parameter name conflicts: inductive contract of _check_parameters_for_conflicts (any number of "
                     "parameters) in addition to the bounded stand-in."},
    "C03": {"text+": " Parser side, for inputs of any size: Endpoint.add_parameters (every declared parameter with a schema is "
                     "in the list of its location under its wire name; duplicates rejected; argument not modified), "
                     "Endpoint.from_data (method, path, tags, operation id, security flag; body accounting), body_from_data, "
                     "get_content_type.",
            "note+": " sort_parameters (string replace / findall relations) is outside both engines: covered only by schematic "
                     "operations whose path parameter names need pythonisation and recur in fixed segments."},
    "C04": {"text+": " Parser side: response_from_data for a response with any number of media types (first usable media type "
                     "wins, its schema is the one parsed, no usable media type is a diagnostic, a $ref is replaced by the "
                     "component itself), _source_by_content_type, _add_responses."},
    "C06": {"technique+": "; " + _INDUCTIVE,
            "text+": " Termination and accounting of the three retry fixpoints (_create_schemas, build_parameters, "
                     "_process_models: variant |to_process|, conservation of components), _resolve_reference (no reference "
                     "followed twice, never returns a Reference), _process_model_errors, for inputs of any size."},
    "C07": {"technique+": "; " + _INDUCTIVE,
            "text+": " For inputs of any size: component accounting of the retry fixpoints (one new diagnostic per component "
                     "that was not registered), update_schemas_with_data (registered or named in the diagnostic), class "
                     "registration never overwrites, Endpoint.from_data body accounting, Endpoint.add_parameters, "
                     "response_from_data.",
            "note+": " EndpointCollection.from_data additionally has an inductive contract for any number of path items, "
                     "operations and tags under generate_all_tags=False (nested loop invariants; the loop over the eight method "
                     "names runs by invariant as well): every operation ends as an Endpoint or a fatal ParseError in the "
                     "collection of its first tag, exactly one of the two. The fixpoint accounting is count-level (not per-item identity); a restructured loop makes the inductive "
                     "contract undecided and the bounded stand-in schema_accounting gives the witness."},
    "C08": {"text+": " Retry fixpoints and _resolve_reference by inductive contracts (any size); EndpointCollection.from_data: "
                     "the Schemas returned holds the initial content and what every kept operation registered, whatever the "
                     "other operations did (inductive, any number of path items and operations)."},
    "C11": {"text+": " Model/List/Const overrides of get_type_string obey the same Unset discipline."},
    "C12": {"text+": " Class registration never overwrites a table entry (so the surviving class does not depend on order); "
                     "hash-seed stand-in extended by a determinism document (unions of several const/enum/model members)."},
    "C13": {"text+": " The ten scalar build classmethods apply convert_value once to the declared default and return its "
                     "diagnostic or a property carrying the converted value. Engine B is cross-checked against CPython on the "
                     "JSON pool on every run (native interpretation of every assumed library function)."},
    "C14": {"technique+": "; member table by " + _INDUCTIVE,
            "text+": " Parser side: EnumProperty.values_from_list for value lists of any length (one member per listed value, "
                     "holding the escaped value; positions never share a member name); const members of unions are tried in turn "
                     "(repaired defect)."},
    "C20": {"text+": " parameter_from_data builds a field-by-field copy of this component whatever the table holds; "
                     "update_parameters_with_data / update_schemas_with_data register exactly the built object under the "
                     "reference path; add_parameters resolves before de-duplication (inductive); _resolve_reference "
                     "(inductive); response_from_data replaces a $ref by the component itself."},
    "C16": {"text+": " Config.from_sources carries every option of the config file and every CLI argument into the Config "
                     "unchanged (table options keep their content, post_hooks kept as given or defaulted per meta type); "
                     "Project.__init__ derives project and package names only from the documented sources."},
    "C02": {"text+": " Engine B is cross-checked against CPython on concrete wire objects of every schematic model on every "
                     "run; const members inside unions are part of the schematic family (repaired defect)."},
}
for _p, _a in _ADD.items():
    _c = CLAIMED[_p]
    for _k, _v in _a.items():
        if _k.endswith("+"):
            _c[_k[:-1]] = _c.get(_k[:-1], "") + _v
        else:
            _c[_k] = _v
# ---- additions of the second build round ----------------------------------------------------------------------------------------
_ADD2 = {
    "C01": {"text+": " No template interpolates inside a hand-written triple-quoted string (every docstring that carries document "
                     "text is the output of safe_docstring); classes never share a models module, operations of one tag never "
                     "share an endpoint module (repaired defects, under contract)."},
    "C03": {"text+": " Generated client.py: the httpx getters of AuthenticatedClient / Client build exactly one client whose "
                     "headers carry the current credential under the current header name. Endpoint.sort_parameters for 0-2 "
                     "placeholders x 0-2 parameters with any names. Project.build: every api/<tag>/<module>.py holds the "
                     "rendering of its own operation (two / three tags, multi-tag operations). Secured operations demand an "
                     "AuthenticatedClient (signatures of the four entry points).",
            "note+": " (sort_parameters now has a fixed-shape contract for the matching of placeholders and parameters; the text "
                     "rewriting of the path stays with the schematic operations.)"},
    "C04": {"text+": " Explicit status codes listed after a range key (2XX) are decoded as documented whether or not the generator "
                     "supports range keys."},
    "C05": {"text+": " Static obligation: no interpolation inside hand-written docstrings; double-quote probe over four metadata "
                     "flavours (python compiled, TOML parsed)."},
    "C06": {"text+": " The top of the call chain: _process_config (contradictory sources / unknown codec => exit 1), "
                     "_get_project_for_url_or_path and generate (a rejected document never reaches Project.build), cli.generate, "
                     "_get_document for path sources (the file system may refuse), convert_value of the enum kinds for any JSON "
                     "value (python's hashing rules)."},
    "C07": {"text+": " One endpoint per module name and tag (inductive ghost state in EndpointCollection.from_data), classes never "
                     "share a models module (Schemas.module_name_taken, inductive over the class table), Project.build writes "
                     "every operation's own rendering."},
    "C08": {"text+": " Endpoint.add_parameters never parses a path-item parameter the operation overrides (inductive); composing a "
                     "model never edits the model it is composed of (_process_properties on a reference member + inline member + "
                     "own properties)."},
    "C09": {"text+": " Modules: Schemas.module_name_taken (inductive, any table) and its use by the three builders; one tag's "
                     "operations: one endpoint per PythonIdentifier(name) and tag (both EndpointCollection.from_data contracts)."},
    "C10": {"text+": " Parser side of `required`: the allOf walk of _process_properties (own and inline-member properties are "
                     "required iff some member lists them)."},
    "C12": {"text+": " Frame clauses that rule out order leaks: composing never edits the parent, the multipart mark of a shared "
                     "body model is sticky, ListProperty.build leaves the document's schema unchanged, every union member is "
                     "built once; sort keys / jinja sort filters that can tie on set elements are refuted."},
    "C13": {"text+": " convert_value of EnumProperty / LiteralEnumProperty for any JSON value; the enum builders store the "
                     "conversion of this schema's own default."},
    "C14": {"text+": " Generated decoders reject every unlisted JSON scalar (string, integer, number; boolean for string lists), "
                     "not only strings; union member attempts catch every exception."},
    "C15": {"text+": " The allOf walk itself: _process_properties with its real closure on a composition of a reference member, "
                     "an inline member and own properties, every subset of the required lists, both member orders."},
    "C16": {"text+": " cli._process_config (the configuration file is read by its path and nothing else), the call chain "
                     "cli.generate -> generate -> Project, Project.build own-rendering clause, content_type_overrides on the "
                     "generated code (request and response media types behave as mapped, requests are announced as themselves)."},
    "C17": {"text+": " List / union builders build every member schema exactly once (none merged before it is resolved); the "
                     "dispatch shapes carry pydantic's model_fields_set."},
    "C18": {"text+": " Names are also tried next to JSON-array, multipart and form bodies; and for every name the templates "
                     "DERIVE from a property's own name (patterns read off the generated code on every run) a sibling property "
                     "spelled like it must not change behaviour (one known finding: <name>_item / <name>_item_data)."},
    "C19": {"text+": " Every file a fresh generation creates is rewritten by every build that is not refused; every module file is "
                     "the rendering of its own record."},
    "C20": {"text+": " Single-member wrappers resolve as the reference on all 361 dispatch shapes; list / union builders leave the "
                     "shared document unchanged (a component used twice is parsed twice)."},
}
for _p, _a in _ADD2.items():
    _c = CLAIMED[_p]
    for _k, _v in _a.items():
        _c[_k[:-1]] = _c.get(_k[:-1], "") + _v
for _p, _c in CLAIMED.items():
    if "B" in _c.get("engines", []) or "F" in _c.get("engines", []):
        _c["note"] = _c.get("note", "") + (" z3 `unsat` answers are re-decided by cvc5 as a second back end (all of them in the "
                                            "thorough tier up to a cap, a sample in the quick tier); a disagreement is an engine "
                                            "error (exit 3).")
