"""C14 - enumerations and constants admit exactly the declared values (both enum styles)."""
from pyvc import libmodels
from props.C10 import run_models


def run(rep, kf, tier, seed):
    run_models(rep, kf, tier, seed, "C14")
    run_models(rep, kf, tier, seed, "C14", config={"literal_enums": True}, tag="+literal_enums")
    # parser side: member table of an enum with ANY number of values (inductive contract)
    from props.common import run_bounded, discharge_parallel
    import contracts.templates_a as ta
    ta.union_fallthrough_obligation(rep, "C14")
    import contracts.dispatch as cdis
    cdis.discharge(rep, kf, "C14", tier, seed)
    import contracts.model_plumbing as cmp_
    from pyvc import engine_b as _eb
    _eb.discharge(rep, kf, [cmp_.const_build_contract()], "C14", tier, seed)
    import contracts.enum_values as cev
    discharge_parallel(rep, kf, [cev.values_contract()], "C14", tier, seed)
    # two enumerations never share one generated class unless their member tables are equal (names AND values): otherwise a
    # listed value of one of them would be rejected by the class generated for the other
    import contracts.registration as creg
    from pyvc import engine_b as _eb
    _eb.discharge(rep, kf, [creg.enum_build_contract(False), creg.enum_build_contract(True)], "C14", tier, seed)
    run_bounded(rep, kf, "C14", ["enum_values", "enum_default"], tier)
    rep.trusted.extend(["CPython semantics of the supported subset as encoded in pyvc.symexec",
                        "enum.Enum(value) lookup: the member with that value or ValueError (symbolic construct)"]
                       + ["assumed library contract: " + t for t in libmodels.TRUSTED])
    rep.assumptions.append("document quantifier by schematic models + frame argument (paper, DESIGN 2.4); parser-side "
                           "member table (values_from_list): inductive contract, snake_case / remove_string_escapes by their "
                           "contracts (deterministic functions), str(int) by the assumed library facts")
    return {"level": "proof"}
