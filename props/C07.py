"""C07 - nothing in the document is dropped silently."""
from pyvc import core, engine_b
import contracts.closure as cl
from props.common import run_bounded


def run(rep, kf, tier, seed):
    import contracts.collection as cc
    import contracts.responses_b as rb
    engine_b.discharge(rep, kf, [cl.get_errors_contract(), cc.from_data_contract(), rb.add_responses_contract(),
                                 rb.body_from_data_contract()], "C07", tier, seed)
    import contracts.registration as creg
    import contracts.fixpoints as cfp
    import contracts.add_parameters as cap
    import contracts.responses_c as crc
    import contracts.refs as crefs
    import contracts.endpoint_from_data as cefd
    import contracts.collection_ind as cci
    engine_b.discharge(rep, kf, [crefs.update_schemas_contract(), cefd.from_data_contract(), cci.from_data_inductive_contract()],
                       "C07", tier, seed)
    import contracts.project as cproj
    engine_b.discharge(rep, kf, [cproj.build_contract("NONE")], "C07", tier, seed)
    engine_b.discharge(rep, kf, creg.all_contracts() + cfp.all_contracts() + [cap.add_parameters_contract(), crc.response_contract()],
                       "C07", tier, seed)
    run_bounded(rep, kf, "C07", ["body_media", "enum_values", "model_properties", "param_conflicts", "name_collision", "body_refs", "schema_accounting", "response_refs", "shared_bad_component", "tag_filing"], tier)
    rep.trusted.append("pyvc Engine B")
    rep.assumptions.extend([
        "EndpointCollection.from_data: inductive contract for any number of path items / operations / tags under the default "
        "generate_all_tags=False (Endpoint.from_data, add_parameters, sort_parameters by summaries: may fail or succeed, the "
        "Schemas they return only grows); generate_all_tags=True only by the fixed-shape contract (one path item, two operations)",
        "_add_responses: per-response accounting by a fixed-shape contract and bounded stand-ins",
        "known gap (finding): two operations / schemas whose derived file names coincide overwrite each other (C07-K1)",
    ])
    return {"level": "proof"}
