"""C11 - generated code type-checks and its annotations are truthful."""
import time

from pyvc import core, engine_b
from pyvc.core import Obligation, PROVED, REFUTED
import contracts.closure as cl
import contracts.merge as cm
import contracts.typestrings as ts


def run(rep, kf, tier, seed):
    tasks = []
    for kind in cm.SIMPLE:
        def t(kind=kind):
            r = core.Report("C11", tier, seed)
            engine_b.discharge(r, kf, [ts.scalar_type_string_contract(kind), ts.to_string_contract(kind)], "C11", tier, seed)
            return r
        tasks.append(t)

    def tu():
        r = core.Report("C11", tier, seed)
        engine_b.discharge(r, kf, [ts.union_inner_flags_contract()] + [ts.composite_type_string_contract(k) for k in ("ModelProperty", "ListProperty", "ConstProperty")], "C11", tier, seed)
        return r
    tasks.append(tu)
    for r in core.run_parallel(tasks):
        rep.merge(r)
    cl.import_closure_obligations(rep, "C11")
    # bounded part, labelled: mypy is an external judge of each generated program
    from pyvc import boundedchecks

    def mypy_task(which):
        def f():
            r = core.Report("C11", tier, seed)
            t0 = time.time()
            why = boundedchecks.mypy_violation(which)
            known = None
            if why and kf is not None and kf.get("C11-K1-literal-enum-redundant-cast") is not None:
                # every literal-enum module fails warn_redundant_casts under the installed mypy (listed finding): the package is
                # judged on the remaining errors -- only while the listed witness still fails natively
                from pyvc.core import run_native
                e = kf.get("C11-K1-literal-enum-redundant-cast")
                if run_native(e["replay"]).get("violates"):
                    rest = boundedchecks.mypy_unlisted_violation(which)
                    if rest != why:
                        known = e
                        why = rest
            ob = Obligation(id=f"C11.bounded.mypy[{which}]", props=["C11"], unit="generated schematic package", bounded=True,
                            backend="mypy (repository settings)", time_s=time.time() - t0,
                            formula=f"the schematic package '{which}' passes mypy under the repository's [tool.mypy] settings   [bounded]",
                            status=PROVED if why is None else REFUTED,
                            detail=why or ("no errors" + (" outside the listed finding C11-K1" if known else "")))
            if known is not None and (known["id"], known["what"]) not in r.known_lines:
                r.known_lines.append((known["id"], known["what"]))
            if why:
                ob.witness = {"kind": "call", "qualname": "pyvc.boundedchecks:" + ("mypy_unlisted_violation" if known else "mypy_violation"),
                              "args": [], "kwargs": {"which": which}, "violates": "result is not None"}
            r.add(ob)
            r.bounded.append({"id": ob.id, "bound": "one schematic package (every kind x required/optional x nullable x position, depth <= 2)",
                              "violations": 0 if why is None else 1})
            return r
        return f
    def same_name_task():
        # finding C11-K2: the probe document of the finding itself (kept out of the schematic family on purpose)
        r = core.Report("C11", tier, seed)
        t0 = time.time()
        lines = boundedchecks.mypy_same_name_errors()
        e = kf.get("C11-K2-property-named-like-its-model") if kf is not None else None
        ob = Obligation(id="C11.bounded.mypy[same-name]", props=["C11"], unit="generated package for a model Status with a property status",
                        bounded=True, backend="mypy (repository settings)", time_s=time.time() - t0,
                        formula="a model with a property whose python name is the model's module name passes mypy   [bounded]")
        if not lines:
            ob.status, ob.detail = PROVED, "no errors"
        elif e is not None and all("status.py" in l for l in lines):
            ob.status, ob.detail, ob.findings = REFUTED, " | ".join(lines[:4]), [e["id"]]
            r.known_lines.append((e["id"], e["what"]))
        else:
            ob.status, ob.detail = REFUTED, " | ".join(lines[:4])
            ob.witness = {"kind": "call", "qualname": "pyvc.boundedchecks:mypy_same_name_errors", "args": [], "kwargs": {},
                          "violates": "len(result) > 0"}
        r.add(ob)
        r.bounded.append({"id": ob.id, "bound": "one probe document", "violations": 0 if ob.status == PROVED or ob.findings else 1,
                          "known": ob.findings})
        return r
    which = ["models", "endpoints", "models-literal"]
    for r in core.run_parallel([mypy_task(w) for w in which] + [same_name_task]):
        rep.merge(r)
    from props.common import run_bounded
    run_bounded(rep, kf, "C11", ["response_type"], tier)
    rep.trusted.extend(["pyvc Engine B", "mypy 2.3.1 with the repository's settings (dateutil stubs are not installed: "
                        "ignore_missing_imports for dateutil only)"])
    rep.assumptions.extend([
        "'passes mypy for every document' is a judgement of an external checker on each generated program, not a post-"
        "condition of a /repo function: only the schematic packages are checked (bounded, labelled, never counted as proved)",
        "truthfulness of annotations for decoded values is carried by the C02/C04 fragment contracts (decoded values are "
        "instances of the classes the same property objects name); list/model/enum type strings are not yet under contract",
    ])
    return {"level": "proof"}
