"""C05 - document text is only ever data, never code (Engine A on utils + template macro, site contexts, Engine B capture)."""
import time

from pyvc import core, engine_a, sites
from pyvc.automata import Lang
from pyvc.core import Obligation, PROVED, REFUTED, UNDECIDED, run_native
from pyvc.strabs import Registry
from pyvc.vocab import Spec
import contracts.templates_a as ta
import contracts.utils as cu

CONFIGS = [("none", {}), ("poetry", {"docstrings_on_attributes": True}), ("setup", {"literal_enums": True}), ("pdm", {})]

# slot family -> name of its language (see slot_language); which parser guarantee it rests on
FAMILY = {
    "prop-name": "h", "query-param": "h", "header-param": "h", "cookie-param": "h", "path-param": "h",
    "enum-value": "h", "component-enum-value": "h", "schema-key": "classname", "schema-title": "classname",
    "path-literal": "raw", "media-type-suffix": "raw", "info-version": "raw", "info-title": "title",
    "const-value": "repr", "param-default": "repr", "string-default": "repr", "operation-id": "ident", "tag": "ident",
}
DOC_ONLY = {"model-description", "model-example", "operation-description", "prop-description", "prop-description-2",
            "prop-example", "summary", "param-description", "info-description", "response-description"}


def family(slot):
    for k in FAMILY:
        if slot.startswith(k):
            return k
    return None


def slot_language(kind):
    S = Spec.get()
    A = S.A
    ALL = S.SIGMA
    if kind == "h":
        L = ALL.subst({ord('"'): [A.word('\\"')]})
        L._name = "range of remove_string_escapes"
        return L
    if kind == "raw":
        return ALL
    if kind == "title":
        L = Lang.text("A client library for accessing ") + ALL.subst({ord('"'): [A.word('\\"')]})
        L._name = "remove_string_escapes('A client library for accessing ' + title)"
        return L
    if kind in ("classname", "ident"):
        return S.IDENT
    return None


KNOWN = {
    ("h", "dq"): ("C05-K1-wire-name-backslash-newline", lambda: Lang.over(Spec.get().ALLC - Spec.get().A.chars("\\\n\r"))),
    ("title", "dq"): ("C05-K1-wire-name-backslash-newline", lambda: Lang.over(Spec.get().ALLC - Spec.get().A.chars("\\\n\r"))),
    ("title", "toml-dq"): ("C05-K1-wire-name-backslash-newline", lambda: Lang.over(Spec.get().ALLC - Spec.get().A.chars("\\\n\r"))),
    ("raw", "dq"): ("C05-K2-raw-text-in-string-literal", lambda: Lang.over(Spec.get().ALLC - Spec.get().A.chars('"\\\n\r'))),
    ("raw", "toml-dq"): ("C05-K2-raw-text-in-string-literal", lambda: Lang.over(Spec.get().ALLC - Spec.get().A.chars('"\\\n\r'))),
    ("h", "fstring"): ("C05-K3-const-message-fstring", lambda: Lang.over(Spec.get().ALLC - Spec.get().A.chars('\\\n\r{}'))),
}


def site_obligations(rep, kf):
    t0 = time.time()
    pairs = {}
    problems = []
    for meta, cfg in CONFIGS:
        occ, errors, files, doc = sites.collect(cfg, meta)
        if errors:
            problems.append(f"{meta}: the slot document produced diagnostics: {[(e.header, (e.detail or '')[:60]) for e in errors][:2]}")
        for f, slot, ctx in occ:
            pairs.setdefault((slot, ctx), []).append(f"{meta}:{f}")
    if problems:
        rep.add(Obligation(id="C05.C.slot-document.accepted", props=["C05"], unit="generate", backend="native",
                           status=UNDECIDED, detail="; ".join(problems)))
    # single-quote probe: quotes made by repr() adapt to the text, quotes written in a template do not
    for meta, cfg in (("none", {}), ("none", {"literal_enums": True})):
        occ, errors, files, doc = sites.collect(cfg, meta, probe="'x")
        from pyvc.replay import py_syntax_errors
        bad = py_syntax_errors(files)
        ob = Obligation(id=f"C05.C.single-quote-probe[{'literal_enums' if cfg else 'enums'}]", props=["C05"],
                        unit="templates: every '...' context reached by a name or value slot", backend="cpython tokenizer",
                        formula="with a single quote in every name/value slot all generated files still parse: single-quoted "
                                "contexts of these slots are produced by repr(), not written in a template")
        if bad:
            ob.status, ob.detail = REFUTED, f"files no longer parse: {bad}"
            ob.witness = {"kind": "generate", "document": doc, "config": cfg, "violates": "py_syntax_errors(files) != {}",
                          "observe": "py_syntax_errors(files)"}
        else:
            ob.status, ob.detail = PROVED, "all generated files parse"
        rep.add(ob)
    # double-quote probe: the parser escapes a double quote once (remove_string_escapes); a site that escapes or unescapes
    # again (a template filter on the way to a "..." / TOML string) breaks exactly on such a text
    for meta, cfg in (("none", {}), ("poetry", {}), ("setup", {"literal_enums": True}), ("pdm", {})):
        occ, errors, files, doc = sites.collect(cfg, meta, probe='"q', probed=sites.DQ_PROBED)
        from pyvc.replay import py_syntax_errors
        bad = dict(py_syntax_errors(files))
        for name, text in files.items():
            if name.endswith(".toml") and text is not None:
                try:
                    import tomllib
                    tomllib.loads(text)
                except Exception as e:      # noqa: BLE001
                    bad[name] = f"invalid TOML: {e}"
        ob = Obligation(id=f"C05.C.double-quote-probe[{meta}]", props=["C05", "C01"],
                        unit="templates: every \"...\" / TOML string context reached by a name, value or title slot",
                        backend="cpython compiler / tomllib",
                        formula="with a double quote in every name / value / title slot all generated files still parse: the one "
                                "escaping done by the parser is neither repeated nor undone at any site")
        if bad:
            ob.status, ob.detail = REFUTED, f"files no longer parse: {bad}"
            ob.witness = {"kind": "generate", "document": doc, "config": cfg, "meta": meta, "violates": "py_syntax_errors(files) != {}",
                          "observe": "py_syntax_errors(files)"}
        else:
            ob.status, ob.detail = PROVED, "all generated files parse"
        rep.add(ob)
    rep.extra["site_pairs"] = {f"{s}@{c}": len(v) for (s, c), v in sorted(pairs.items())}
    rep.extra["site_occurrences"] = sum(len(v) for v in pairs.values())
    done = {}
    printed = set(f for f, _ in rep.known_lines)
    for (slot, ctx), where in sorted(pairs.items()):
        fam = family(slot)
        ob = Obligation(id=f"C05.C.site.{slot}@{ctx}", props=["C05", "C01"], unit=f"templates: every site where {slot} reaches a {ctx} context",
                        where=where[0], backend="automata (language inclusion) over measured site context")
        if ctx in ("doc", "rdoc"):
            ob.formula = f"{slot} in a docstring: goes through safe_docstring (macro contract, all contents)"
            ob.status, ob.detail = PROVED, "discharged by C05.A.helpers.jinja/safe_docstring (any content)"
        elif ctx in ("markdown", "comment"):
            ob.formula = f"{slot} in {ctx}: nothing to execute"
            ob.status, ob.detail = PROVED, "README / comment text is not code (newline in a comment: see ident/h languages)"
            if ctx == "comment":
                ob.status, ob.detail = UNDECIDED, "document text inside a comment: a newline would end it; no contract yet"
        elif ctx == "ident" or ctx == "path-component":
            ob.formula = f"{slot} in {ctx} position is the output of PythonIdentifier/ClassName/snake_case/kebab_case"
            ob.status, ob.detail = PROVED, "range of the sanitisers is IDENT / PATH_COMPONENT (C09/C19 triples); feed checked natively below"
        elif slot in DOC_ONLY:
            ob.formula = f"{slot} must only reach docstrings"
            ob.status, ob.detail = REFUTED, f"{slot} reaches a {ctx} context in {where[0]}"
        elif fam is None:
            ob.status, ob.detail = UNDECIDED, f"slot {slot} has no language in the contract table"
        elif FAMILY[fam] == "h" and ctx == "sq":
            ob.formula = f"{slot} between single quotes: the quotes are repr()'s own (single-quote probe)"
            ob.status, ob.detail = PROVED, "discharged by the single-quote probe + assumed contract of repr"
        elif FAMILY[fam] == "repr":
            if ctx in ("sq", "dq"):
                ob.formula = f"{slot}: the quotes are repr()'s own; repr output is a valid literal (assumed contract of repr)"
                ob.status, ob.detail = PROVED, "Value.python_code = repr(...) (C13 contracts); assumed: repr(str) is a valid literal"
            elif ctx == "fstring":
                key = ("h", "fstring")
                ob = _inclusion(ob, slot, "h", ctx, kf, rep, printed)
            else:
                ob.status, ob.detail = REFUTED, f"{slot} reaches context {ctx}"
        elif ctx.startswith("code") or ctx.startswith("untokenizable") or ctx in ("other-file", "toml-code", "rdq", "rsq", "sdoc"):
            ob.formula = f"{slot} must not reach {ctx}"
            ob.status, ob.detail = REFUTED, f"document text {slot} lands in {ctx} in {where[0]}"
        else:
            ob = _inclusion(ob, slot, FAMILY[fam], ctx, kf, rep, printed)
        rep.add(ob)
    rep.obligations[-1].time_s = time.time() - t0


_cache = {}


def _inclusion(ob, slot, kind, ctx, kf, rep, printed):
    L = slot_language(kind)
    R = sites.required_language(ctx)
    if L is None or R is None:
        ob.status, ob.detail = UNDECIDED, f"no language for kind {kind} / context {ctx}"
        return ob
    ob.formula = f"L({slot}) = {getattr(L, '_name', kind)}  <=  {getattr(R, '_name', ctx)}"
    key = (kind, ctx)
    if key not in _cache:
        bad = L - R
        res = {"ok": bad.is_empty(), "witness": None if bad.is_empty() else Spec.get().A.concretise(bad.witness())}
        if not res["ok"] and key in KNOWN:
            fid, restr = KNOWN[key]
            base = restr()
            Lr = L & (base if kind == "raw" else _h_of(base) if kind in ("h",) else (Lang.text("A client library for accessing ") + _h_of(base)))
            res["restricted_ok"] = (Lr - R).is_empty()
            res["fid"] = fid
        _cache[key] = res
    res = _cache[key]
    if res["ok"]:
        ob.status, ob.detail = PROVED, "inclusion holds for all strings"
        return ob
    fid = res.get("fid")
    e = kf.get(fid) if fid else None
    if e is not None and res.get("restricted_ok") and run_native(e["replay"]).get("violates"):
        ob.status = REFUTED
        ob.findings = [fid]
        ob.detail = f"fails as stated (e.g. {res['witness']!r}); holds with the known-finding class excluded"
        r = Obligation(id=ob.id + f"[{fid}]", props=ob.props, unit=ob.unit, where=ob.where, backend=ob.backend, status=PROVED,
                       restricted=True, findings=[fid], unrestricted_of=ob.id, formula=ob.formula + " with the class excluded",
                       detail="inclusion holds for all strings outside the excluded class")
        rep.add(r)
        if fid not in printed:
            printed.add(fid)
            rep.known_lines.append((fid, e["what"]))
        return ob
    ob.status = REFUTED
    ob.detail = f"text such as {res['witness']!r} in slot {slot} cannot stand in a {ctx} context"
    ob.witness = None
    return ob


def _h_of(base):
    A = Spec.get().A
    return base.subst({ord('"'): [A.word('\\"')]})


def run(rep, kf, tier, seed):
    reg = Registry()
    cu.build(reg)
    engine_a.discharge(rep, kf, reg, "C05", tier, seed)
    ta.safe_docstring_obligations(rep, "C05")
    ta.handwritten_docstring_obligation(rep, "C05")
    site_obligations(rep, kf)
    import contracts.dispatch as cd
    cd.discharge(rep, kf, "C05", tier, seed)
    # default / const slots: the emitted python_code is an expression evaluating to the declared value (P1 / P2 of convert_value)
    import contracts.convert_value as cv
    from pyvc import engine_b, core
    tasks = []
    for c in cv.build():
        def t(c=c):
            r = core.Report("C05", tier, seed)
            engine_b.discharge(r, kf, [c], "C05", tier, seed)
            r.obligations = [o for o in r.obligations if "C05" in o.props]
            return r
        tasks.append(t)
    for r in core.run_parallel(tasks):
        rep.merge(r)
    rep.trusted.extend([
        "pyvc's encoding of the str/re primitives and of the jinja2 AST (filters replace/wordwrap/indent/trim)",
        "CPython's tokenizer as the judge of lexical contexts; jinja2 rendering",
        "repr(str) is a valid string literal that evaluates to the string (assumed)",
    ])
    rep.assumptions.extend([
        "site contexts are measured on the rendering of a slot document (4 metadata/config variants): the templates' data "
        "flow from record fields to output sites is assumed to be the same for all documents",
        "the language of each slot at string sites is taken from the contract table (names/enum values: range of "
        "remove_string_escapes; path/media type/version: raw) -- the name entries are discharged by the property_from_data "
        "forwarding contract, the others are read off the construction sites",
        "README.md is excluded (markdown, nothing executes)",
    ])
    return {"level": "proof"}
